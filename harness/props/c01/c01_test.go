// C01 — accepted signatures are intact and bound to the artifact being verified.
// Oracle (implication on success): the harness's independent verifier accepts the presented
// envelope, the payload is a Notary payload whose target equals the presented artifact, and
// every required metadata pair is signed. DESIGN.md section 5, C01.
package c01

import (
	"bytes"
	"context"
	"crypto/sha256"
	"crypto/x509"
	"encoding/base64"
	"encoding/hex"
	"encoding/json"
	"errors"
	"fmt"
	"io"
	"sort"
	"strings"
	"sync"
	"testing"
	"testing/iotest"
	"time"

	"github.com/notaryproject/notation-go"
	"github.com/notaryproject/notation-go/verifier"
	"github.com/notaryproject/notation-go/verifier/trustpolicy"
	pf "github.com/notaryproject/notation-plugin-framework-go/plugin"
	"github.com/opencontainers/go-digest"
	ocispec "github.com/opencontainers/image-spec/specs-go/v1"
	"pgregory.net/rapid"

	"verifharness/internal/envb"
	"verifharness/internal/kit"
	"verifharness/internal/mocks"
	"verifharness/internal/pki"
	"verifharness/internal/rp"
	"verifharness/internal/stats"
)

const rule = "case = (envelope source: fresh / descriptor near-miss / metadata near-miss / re-assembled / wrong payload type / byte-mutated, format, key, presented artifact, required metadata, enforcement map, trust and identity configuration, plugin, entry point); non-trivial = the envelope parsed and reached signature evaluation under a non-skip level; distinct by hash(envelope, presented artifact, metadata, map, entry)"

// Presented is what the caller asks to verify.
type Presented struct {
	Kind      string            `json:"kind"` // oci | blob
	MediaType string            `json:"mediaType"`
	Digest    string            `json:"digest,omitempty"`
	Size      int64             `json:"size,omitempty"`
	Blob      []byte            `json:"blob,omitempty"`
	Required  map[string]string `json:"required,omitempty"`
	Reader    string            `json:"reader,omitempty"` // how notation.VerifyBlob is handed the blob
	SplitAt   int               `json:"splitAt,omitempty"`
	// Skipped (reader "advanced-seekable"): bytes that precede the blob in the caller's seekable
	// source and that the caller has already consumed; the blob is what is left to read
	Skipped []byte `json:"skipped,omitempty"`
}

// blobReader presents the blob through readers with different legal behaviours.
func (p Presented) blobReader() io.Reader {
	b := p.Blob
	switch p.Reader {
	case "multi-split": // first Read returns a prefix (e.g. exactly the blob that was signed), later Reads the rest
		k := p.SplitAt
		if k <= 0 || k >= len(b) {
			k = len(b) / 2
		}
		return io.MultiReader(bytes.NewReader(b[:k]), bytes.NewReader(b[k:]))
	case "one-byte":
		return iotest.OneByteReader(bytes.NewReader(b))
	case "data-with-eof":
		return iotest.DataErrReader(bytes.NewReader(b))
	case "half":
		return iotest.HalfReader(bytes.NewReader(b))
	case "error-at-end": // every byte of the blob is delivered, then the source fails instead of ending
		return io.MultiReader(bytes.NewReader(b), iotest.ErrReader(errors.New("scripted read failure after the blob's bytes")))
	case "error-in-the-middle":
		return io.MultiReader(bytes.NewReader(b[:len(b)/2]), iotest.ErrReader(errors.New("scripted read failure in mid-stream")))
	case "advanced-seekable": // a seekable source positioned behind a header the caller has consumed
		r := bytes.NewReader(append(append([]byte{}, p.Skipped...), b...))
		r.Seek(int64(len(p.Skipped)), io.SeekStart)
		return r
	}
	return bytes.NewReader(b)
}

// Case is the replay format.
type Case struct {
	Source    string    `json:"source"`
	Detail    string    `json:"detail"`
	Format    string    `json:"format"`
	KeySpec   string    `json:"keySpec"`
	Envelope  []byte    `json:"envelope"`
	Presented Presented `json:"presented"`
	Level     kit.Level `json:"level"`
	Trusted   bool      `json:"trusted"`
	Identity  string    `json:"identity"`
	Plugin    bool      `json:"plugin"`
	// PluginKind: "" answers success; "nil-response" returns neither a response nor an error; "panics"
	// panics. Whatever a plugin does, it cannot turn a wrong signature into a success (a verification
	// that crashes is not a success either, and is not this property's subject)
	PluginKind string `json:"pluginKind,omitempty"`
	Entry      string `json:"entry"` // verifier.Verify verifier.VerifyBlob notation.Verify notation.VerifyBlob
	Scheme     string `json:"scheme"`
	// Decoys are other signatures the repository lists BEFORE the case's envelope (notation.Verify
	// only): valid signatures of the same signer that lack part of the required metadata or are
	// for another artifact. Whatever verifies first is judged.
	Decoys [][]byte `json:"decoys,omitempty"`
	// Earlier: genuine signatures (the ones the case's envelope was derived from), each verified
	// for its OWN artifact on the same verifier before the judged call. What the process has
	// accepted before must not make a derived envelope acceptable
	Earlier []Earlier `json:"earlier,omitempty"`
}

// Earlier is one genuine (envelope, artifact) pair verified before the judged call.
type Earlier struct {
	Envelope  []byte `json:"envelope"`
	MediaType string `json:"mediaType"`
	Digest    string `json:"digest"`
	Size      int64  `json:"size"`
}

// oddPlugin is a verification plugin that misbehaves when asked to verify.
type oddPlugin struct {
	*mocks.Plugin
	kind string
}

func (o oddPlugin) VerifySignature(ctx context.Context, req *pf.VerifySignatureRequest) (*pf.VerifySignatureResponse, error) {
	if o.kind == "panics" {
		panic("scripted plugin panic")
	}
	return nil, nil
}

// ---- signers ----

type signer struct {
	chain    *pki.Chain
	twinLeaf *pki.Cert // same subject, different key, same issuer
}

var (
	smu     sync.Mutex
	signers = map[string]*signer{}
)

func getSigner(name, keySpec string) *signer {
	smu.Lock()
	defer smu.Unlock()
	k := name + "/" + keySpec
	if s, ok := signers[k]; ok {
		return s
	}
	idx := map[string]int{"A": 0, "B": 1}[name]
	ch := pki.NewChain(pki.ChainOpts{Intermediates: 1, Name: "c01 " + name, LeafKey: pki.Key(keySpec, idx), LeafSubject: pki.DefaultLeafSubject("c01 signer " + name)})
	twinKeySpec := keySpec
	twin := pki.Mint(pki.Spec{Subject: pki.DefaultLeafSubject("c01 signer " + name), NotBefore: ch.Leaf().Cert.NotBefore, NotAfter: ch.Leaf().Cert.NotAfter,
		EKU: []x509.ExtKeyUsage{x509.ExtKeyUsageCodeSigning}, Key: pki.Key(twinKeySpec, idx+2)}, ch.Certs[1])
	s := &signer{chain: ch, twinLeaf: twin}
	signers[k] = s
	return s
}

// ---- artifacts ----

type artifact struct {
	kind      string
	mediaType string
	blob      []byte
	digest    string
	size      int64
	ann       map[string]string
}

func hashName(ai envb.AlgInfo) string {
	return map[string]string{"EC-256": "sha256", "EC-384": "sha384", "EC-521": "sha512", "RSA-2048": "sha256", "RSA-3072": "sha384", "RSA-4096": "sha512"}[ai.Spec]
}

func (a *artifact) payload() []byte {
	return envb.PayloadFor(a.mediaType, a.digest, a.size, a.ann)
}

func makeArtifact(kind, seed string, ann map[string]string, keySpec string) *artifact {
	a := &artifact{kind: kind, ann: ann}
	if kind == "oci" {
		s := sha256.Sum256([]byte(seed))
		a.mediaType, a.digest, a.size = "application/vnd.oci.image.manifest.v1+json", "sha256:"+hex.EncodeToString(s[:]), int64(400+len(seed))
		return a
	}
	a.blob = []byte("blob content " + seed)
	a.mediaType = "application/octet-stream"
	ai, _ := envb.AlgFor(pki.Key(keySpec, 0).Public())
	a.digest, a.size = kit.OwnDigest(hashName(ai), a.blob), int64(len(a.blob))
	return a
}

// scheme is a per-case choice shared by every envelope of the case (set by the test before
// building; the fuzz seeds use the default)
var caseScheme = envb.SchemeX509

func buildEnv(format string, s *signer, payload []byte, cty string, plugin bool) []byte {
	now := time.Now()
	spec := envb.Spec{Format: format, Payload: payload, ContentType: cty, Scheme: caseScheme, SigningTime: now.Add(-time.Hour),
		Chain: s.chain.X509(), Key: s.chain.Leaf().Key}
	if plugin {
		spec.Ext = []envb.Attr{{Key: envb.AttrPlugin, Critical: true, Value: "c01-plugin"}}
	}
	return envb.Build(spec)
}

// ---- mutations ----

func reassemble(rt *rapid.T, format string, envs [][]byte, twin *x509.Certificate) ([]byte, string) {
	pickEnv := func(label string) int { return rapid.IntRange(0, len(envs)-1).Draw(rt, label) }
	if format == envb.MTJWS {
		parts := make([]*envb.JWSParts, len(envs))
		for i, e := range envs {
			p, err := envb.SplitJWS(e)
			if err != nil {
				rt.Fatalf("harness: split: %v", err)
			}
			parts[i] = p
		}
		a, b, c, d := pickEnv("protectedFrom"), pickEnv("payloadFrom"), pickEnv("signatureFrom"), pickEnv("chainFrom")
		out := &envb.JWSParts{Protected: parts[a].Protected, Payload: parts[b].Payload, Signature: parts[c].Signature, Header: map[string]any{}}
		for k, v := range parts[d].Header {
			out.Header[k] = v
		}
		detail := fmt.Sprintf("protected=%d,payload=%d,signature=%d,chain=%d", a, b, c, d)
		switch rp.Pick(rt, "extra", "none", "none", "twin-leaf", "reserialise-payload", "drop-chain-tail") {
		case "twin-leaf":
			x5c, _ := out.Header["x5c"].([]any)
			if len(x5c) > 0 {
				nx := append([]any{base64.StdEncoding.EncodeToString(twin.Raw)}, x5c[1:]...)
				out.Header["x5c"] = nx
				detail += ",twin-leaf"
			}
		case "reserialise-payload":
			raw, err := base64.RawURLEncoding.DecodeString(out.Payload)
			if err == nil {
				var v any
				if json.Unmarshal(raw, &v) == nil {
					re, _ := json.MarshalIndent(v, "", " ")
					out.Payload = base64.RawURLEncoding.EncodeToString(re)
					detail += ",reserialised"
				}
			}
		case "drop-chain-tail":
			x5c, _ := out.Header["x5c"].([]any)
			if len(x5c) > 1 {
				out.Header["x5c"] = x5c[:len(x5c)-1]
				detail += ",chain-tail-dropped"
			}
		}
		return envb.JoinJWS(out), detail
	}
	parts := make([]*envb.COSESign1, len(envs))
	for i, e := range envs {
		p, err := envb.SplitCOSE(e)
		if err != nil {
			rt.Fatalf("harness: split: %v", err)
		}
		parts[i] = p
	}
	a, b, c, d := pickEnv("protectedFrom"), pickEnv("payloadFrom"), pickEnv("signatureFrom"), pickEnv("chainFrom")
	out := &envb.COSESign1{Protected: parts[a].Protected, Payload: parts[b].Payload, Signature: parts[c].Signature, Unprotected: map[any]any{}}
	for k, v := range parts[d].Unprotected {
		out.Unprotected[k] = v
	}
	detail := fmt.Sprintf("protected=%d,payload=%d,signature=%d,chain=%d", a, b, c, d)
	if rp.Pick(rt, "extra", "none", "none", "twin-leaf") == "twin-leaf" {
		if ch, ok := out.Unprotected[uint64(33)].([]any); ok && len(ch) > 0 {
			out.Unprotected[uint64(33)] = append([]any{twin.Raw}, ch[1:]...)
			detail += ",twin-leaf"
		}
	}
	return envb.JoinCOSE(out), detail
}

func byteMutate(rt *rapid.T, format string, env []byte) ([]byte, string) {
	out := append([]byte{}, env...)
	op := rp.Pick(rt, "mutation", "flip", "flip", "segment", "segment", "truncate", "append", "duplicate-byte")
	switch op {
	case "flip":
		i := rapid.IntRange(0, len(out)-1).Draw(rt, "at")
		out[i] ^= byte(1 << rapid.IntRange(0, 7).Draw(rt, "bit"))
	case "truncate":
		out = out[:rapid.IntRange(1, len(out)-1).Draw(rt, "len")]
	case "append":
		out = append(out, byte(rapid.IntRange(0, 255).Draw(rt, "b")))
	case "duplicate-byte":
		i := rapid.IntRange(0, len(out)-1).Draw(rt, "at")
		out = append(out[:i+1], out[i:]...)
	case "segment":
		// edit inside a decoded segment so that the outer encoding stays well-formed
		if format == envb.MTJWS {
			p, err := envb.SplitJWS(env)
			if err != nil {
				return out, op
			}
			field := rp.Pick(rt, "field", "protected", "payload", "signature")
			get := map[string]*string{"protected": &p.Protected, "payload": &p.Payload, "signature": &p.Signature}[field]
			raw, err := base64.RawURLEncoding.DecodeString(*get)
			if err != nil || len(raw) == 0 {
				return out, op
			}
			i := rapid.IntRange(0, len(raw)-1).Draw(rt, "at")
			if field == "signature" {
				raw[i] ^= byte(1 << rapid.IntRange(0, 7).Draw(rt, "bit"))
			} else { // keep JSON well-formed most of the time: change a letter or digit into another
				switch {
				case raw[i] >= 'a' && raw[i] < 'z', raw[i] >= '0' && raw[i] < '9', raw[i] >= 'A' && raw[i] < 'Z':
					raw[i]++
				default:
					raw[i] ^= 0x01
				}
			}
			*get = base64.RawURLEncoding.EncodeToString(raw)
			return envb.JoinJWS(p), op + ":" + field
		}
		m, err := envb.SplitCOSE(env)
		if err != nil {
			return out, op
		}
		field := rp.Pick(rt, "field", "protected", "payload", "signature")
		get := map[string]*[]byte{"protected": &m.Protected, "payload": &m.Payload, "signature": &m.Signature}[field]
		if len(*get) == 0 {
			return out, op
		}
		raw := append([]byte{}, (*get)...)
		i := rapid.IntRange(0, len(raw)-1).Draw(rt, "at")
		switch {
		case field != "signature" && (raw[i] >= 'a' && raw[i] < 'z' || raw[i] >= '0' && raw[i] < '9'):
			raw[i]++
		default:
			raw[i] ^= byte(1 << rapid.IntRange(0, 7).Draw(rt, "bit"))
		}
		*get = raw
		return envb.JoinCOSE(m), op + ":" + field
	}
	return out, op
}

// ---- run + oracle ----

type oneSigRepo struct {
	desc ocispec.Descriptor
	env  []byte
	mt   string
	more [][]byte // listed before env
}

func (r *oneSigRepo) all() [][]byte { return append(append([][]byte{}, r.more...), r.env) }

func (r *oneSigRepo) Resolve(ctx context.Context, ref string) (ocispec.Descriptor, error) {
	return r.desc, nil
}
func (r *oneSigRepo) ListSignatures(ctx context.Context, d ocispec.Descriptor, fn func([]ocispec.Descriptor) error) error {
	var page []ocispec.Descriptor
	for i, e := range r.all() {
		page = append(page, ocispec.Descriptor{MediaType: ocispec.MediaTypeImageManifest, Digest: digest.FromBytes(e), Size: int64(i)})
	}
	return fn(page)
}
func (r *oneSigRepo) FetchSignatureBlob(ctx context.Context, d ocispec.Descriptor) ([]byte, ocispec.Descriptor, error) {
	all := r.all()
	if d.Size < 0 || int(d.Size) >= len(all) {
		return nil, ocispec.Descriptor{}, errors.New("harness: unknown signature manifest")
	}
	e := all[d.Size]
	return e, ocispec.Descriptor{MediaType: r.mt, Digest: digest.FromBytes(e), Size: int64(len(e))}, nil
}
func (r *oneSigRepo) PushSignature(ctx context.Context, mediaType string, blob []byte, subject ocispec.Descriptor, annotations map[string]string) (ocispec.Descriptor, ocispec.Descriptor, error) {
	return ocispec.Descriptor{}, ocispec.Descriptor{}, errors.New("not supported")
}

type result struct {
	success bool
	err     error
	outcome *notation.VerificationOutcome
}

func execute(c *Case, s *signer) (resOut *result, errOut error) {
	storeType := "ca"
	if c.Scheme == envb.SchemeSA {
		storeType = "signingAuthority"
	}
	ts := mocks.NewTrustStore()
	if c.Trusted {
		ts.Put(storeType, "x", s.chain.Root().Cert)
	} else {
		ts.Put(storeType, "x", getSigner("B", "EC-256").chain.Root().Cert, getSigner("A", "EC-384").chain.Certs[1].Cert)
	}
	ids := map[string][]string{"wildcard": {"*"}, "pinned": {"x509.subject:C=US,ST=WA,O=verif"}, "pinned-other": {"x509.subject:C=US,ST=WA,O=somebody else"}}[c.Identity]
	opts := kit.Options()
	sv := c.Level.SV("")
	if c.Presented.Kind == "oci" {
		opts.OCITrustPolicy = kit.OCIDoc("p", sv, []string{storeType + ":x"}, ids)
	} else {
		opts.BlobTrustPolicy = kit.BlobDoc("", sv, []string{storeType + ":x"}, ids)
	}
	if c.Plugin {
		var plug pf.Plugin = &mocks.Plugin{Name: "c01-plugin", Version: "1.0.0",
			Capabilities: []pf.Capability{pf.CapabilityTrustedIdentityVerifier, pf.CapabilityRevocationCheckVerifier}}
		if c.PluginKind != "" {
			plug = oddPlugin{plug.(*mocks.Plugin), c.PluginKind}
		}
		opts.PluginManager = &mocks.Manager{Plugins: map[string]pf.Plugin{"c01-plugin": plug}}
	}
	v, err := verifier.NewVerifierWithOptions(ts, opts)
	if err != nil {
		return nil, fmt.Errorf("verifier construction: %v", err)
	}
	ctx := context.Background()
	p := c.Presented
	res := &result{}
	defer func() {
		// a crash inside the library (e.g. on a plugin that answers with nothing) is not a success;
		// crashes are C12's subject, successes are this property's
		if r := recover(); r != nil {
			if c.PluginKind == "" {
				panic(r)
			}
			res.success, res.err, res.outcome = false, fmt.Errorf("library panicked: %v", r), nil
			resOut, errOut = res, nil
		}
	}()
	required := func() map[string]string { // the library gets its own copy: the oracle judges against the pristine map
		if p.Required == nil {
			return nil
		}
		m := map[string]string{}
		for k, v := range p.Required {
			m[k] = v
		}
		return m
	}
	for _, e := range c.Earlier { // not judged
		d := ocispec.Descriptor{MediaType: e.MediaType, Digest: digest.Digest(e.Digest), Size: e.Size}
		if c.Presented.Kind == "oci" {
			v.Verify(ctx, d, e.Envelope, notation.VerifierVerifyOptions{ArtifactReference: "registry.example/c01/repo@" + e.Digest, SignatureMediaType: c.Format})
		} else {
			v.VerifyBlob(ctx, func(digest.Algorithm) (ocispec.Descriptor, error) { return d, nil }, e.Envelope, notation.BlobVerifierVerifyOptions{SignatureMediaType: c.Format})
		}
	}
	switch c.Entry {
	case "verifier.Verify":
		desc := ocispec.Descriptor{MediaType: p.MediaType, Digest: digest.Digest(p.Digest), Size: p.Size}
		res.outcome, res.err = v.Verify(ctx, desc, c.Envelope, notation.VerifierVerifyOptions{ArtifactReference: "registry.example/c01/repo@" + p.Digest,
			SignatureMediaType: c.Format, UserMetadata: required()})
	case "notation.Verify":
		desc := ocispec.Descriptor{MediaType: p.MediaType, Digest: digest.Digest(p.Digest), Size: p.Size}
		var outs []*notation.VerificationOutcome
		_, outs, res.err = notation.Verify(ctx, v, &oneSigRepo{desc: desc, env: c.Envelope, mt: c.Format, more: c.Decoys}, notation.VerifyOptions{
			ArtifactReference: "registry.example/c01/repo@" + p.Digest, MaxSignatureAttempts: 6, UserMetadata: required()})
		if len(outs) > 0 {
			res.outcome = outs[0]
		}
	case "verifier.VerifyBlob":
		gen := func(alg digest.Algorithm) (ocispec.Descriptor, error) {
			if !alg.Available() {
				return ocispec.Descriptor{}, errors.New("unavailable algorithm")
			}
			return ocispec.Descriptor{MediaType: p.MediaType, Digest: alg.FromBytes(p.Blob), Size: int64(len(p.Blob))}, nil
		}
		res.outcome, res.err = v.VerifyBlob(ctx, gen, c.Envelope, notation.BlobVerifierVerifyOptions{SignatureMediaType: c.Format, UserMetadata: required()})
	case "notation.VerifyBlob":
		// the options are filled in the way callers write it: through the selectors (a literal of the
		// embedded struct names the same fields today, but only today)
		var vo notation.VerifyBlobOptions
		vo.SignatureMediaType = c.Format
		vo.UserMetadata = required()
		vo.ContentMediaType = p.MediaType
		_, res.outcome, res.err = notation.VerifyBlob(ctx, v, p.blobReader(), c.Envelope, vo)
	default:
		return nil, fmt.Errorf("unknown entry %q", c.Entry)
	}
	res.success = res.err == nil
	return res, nil
}

// ownPayload is the harness's own reading of the payload (standard library JSON only).
type ownPayload struct {
	TargetArtifact *struct {
		MediaType   string            `json:"mediaType"`
		Digest      string            `json:"digest"`
		Size        int64             `json:"size"`
		Annotations map[string]string `json:"annotations"`
	} `json:"targetArtifact"`
}

// oracle is applied to every success.
func oracle(c *Case) (string, string) { return oracleFor(c, c.Envelope) }

// oracleFor judges a success that was reported for envelope env.
func oracleFor(c *Case, env []byte) (string, string) {
	ver, err := envb.IndependentVerify(c.Format, env)
	if err != nil {
		return "C01:success-without-valid-signature:" + c.Source, fmt.Sprintf("verification succeeded but the independent verifier rejects the envelope: %v", err)
	}
	if ver.ContentType != envb.PayloadType {
		return "C01:success-with-foreign-payload-type", fmt.Sprintf("verification succeeded with payload content type %q", ver.ContentType)
	}
	var pl ownPayload
	if err := json.Unmarshal(ver.Payload, &pl); err != nil || pl.TargetArtifact == nil {
		return "C01:success-without-target-descriptor", fmt.Sprintf("verification succeeded but the payload has no target descriptor (%v): %s", err, ver.Payload)
	}
	t := pl.TargetArtifact
	p := c.Presented
	if p.Kind == "blob" && strings.HasPrefix(p.Reader, "error-") && c.Entry == "notation.VerifyBlob" {
		// the blob's source failed: what it would have delivered is unknown, so nothing can have been
		// established about "the artifact under verification"
		return "C01:success-although-blob-unreadable:" + p.Reader, "verification succeeded although reading the blob failed"
	}
	if p.Kind == "oci" {
		if t.Digest != p.Digest || t.Size != p.Size || t.MediaType != p.MediaType {
			return "C01:success-for-different-artifact:oci:" + c.Entry, fmt.Sprintf("signed target (%s %s %d) differs from the presented descriptor (%s %s %d)", t.MediaType, t.Digest, t.Size, p.MediaType, p.Digest, p.Size)
		}
	} else {
		own := kit.OwnDigest(hashName(ver.Alg), p.Blob)
		if t.Digest != own || t.Size != int64(len(p.Blob)) {
			return "C01:success-for-different-artifact:blob:" + c.Entry, fmt.Sprintf("signed target (%s %d) differs from the presented blob (%s %d)", t.Digest, t.Size, own, len(p.Blob))
		}
		if p.MediaType != "" && t.MediaType != p.MediaType {
			return "C01:success-for-different-media-type:blob:" + c.Entry, fmt.Sprintf("signed media type %q differs from the stated content type %q", t.MediaType, p.MediaType)
		}
	}
	var keys []string
	for k := range p.Required {
		keys = append(keys, k)
	}
	sort.Strings(keys)
	for _, k := range keys {
		if got, ok := t.Annotations[k]; !ok || got != p.Required[k] {
			return "C01:success-with-missing-metadata:" + p.Kind + ":" + c.Entry, fmt.Sprintf("required metadata %q=%q is not in the signed payload annotations %v", k, p.Required[k], t.Annotations)
		}
	}
	return "", ""
}

func drawMetadata(rt *rapid.T) map[string]string {
	n := rapid.IntRange(0, 3).Draw(rt, "signedMetadata")
	if n == 0 {
		return nil
	}
	m := map[string]string{}
	for i := 0; i < n; i++ {
		m[rp.Pick(rt, "mk", "env", "Env", "build", "owner", "stage", "team=core", "a:b", "k v")] = rp.Pick(rt, "mv", "prod", "Prod", "42", "", "dev", "core=prod", "b:c", "x y")
	}
	return m
}

func TestC01_Bound(t *testing.T) {
	rec := stats.New(t, "C01", rule)
	rp.Check(t, 24000, 2000000, func(rt *rapid.T) {
		c := &Case{Format: rp.Pick(rt, "format", envb.MTJWS, envb.MTCOSE),
			KeySpec:    rp.Pick(rt, "keySpec", "EC-256", "EC-256", "EC-256", "EC-384", "EC-384", "EC-521", "RSA-2048", "RSA-3072"),
			Level:      kit.DrawLevel(rt),
			Trusted:    rapid.IntRange(0, 3).Draw(rt, "trusted") != 0,
			Identity:   rp.Pick(rt, "identity", "wildcard", "wildcard", "pinned", "pinned-other"),
			Plugin:     rapid.IntRange(0, 3).Draw(rt, "plugin") == 0,
			PluginKind: rp.Pick(rt, "pluginKind", "", "", "", "nil-response", "panics"),
		}
		c.Scheme = rp.Pick(rt, "scheme", envb.SchemeX509, envb.SchemeX509, envb.SchemeSA)
		caseScheme = c.Scheme
		defer func() { caseScheme = envb.SchemeX509 }()
		kind := rp.Pick(rt, "kind", "oci", "blob")
		if kind == "oci" {
			c.Entry = rp.Pick(rt, "entry", "verifier.Verify", "verifier.Verify", "notation.Verify")
		} else {
			c.Entry = rp.Pick(rt, "entry", "verifier.VerifyBlob", "notation.VerifyBlob", "notation.VerifyBlob")
		}
		sA := getSigner("A", c.KeySpec)
		sB := getSigner("B", c.KeySpec)
		ann := drawMetadata(rt)
		art := makeArtifact(kind, "x", ann, c.KeySpec)
		other := makeArtifact(kind, "y", ann, c.KeySpec)
		e0 := buildEnv(c.Format, sA, art.payload(), envb.PayloadType, c.Plugin)
		c.Envelope = e0
		c.Presented = Presented{Kind: kind, MediaType: art.mediaType, Digest: art.digest, Size: art.size, Blob: art.blob}
		if kind == "blob" && rapid.IntRange(0, 2).Draw(rt, "omitContentType") == 0 {
			c.Presented.MediaType = ""
		}
		// required metadata satisfied by default (a subset of what was signed)
		if len(ann) > 0 && rapid.Bool().Draw(rt, "requireMetadata") {
			c.Presented.Required = map[string]string{}
			var ks []string
			for k := range ann {
				ks = append(ks, k)
			}
			sort.Strings(ks)
			for _, k := range ks {
				if rapid.Bool().Draw(rt, "req:"+k) {
					c.Presented.Required[k] = ann[k]
				}
			}
		}
		if !c.Plugin {
			c.PluginKind = ""
		}
		c.Source = rp.Pick(rt, "source", "fresh", "fresh", "descriptor-nearmiss", "descriptor-nearmiss", "metadata-nearmiss", "metadata-nearmiss", "reassembled", "reassembled", "wrong-payload-type", "payload-size-lies", "payload-size-lies", "bytemutated", "bytemutated")
		if kind == "blob" && rapid.IntRange(0, 9).Draw(rt, "signedForEmptyBlob") == 0 {
			c.Source = "signed-for-the-empty-blob"
		}
		if kind == "blob" && c.Entry == "notation.VerifyBlob" && rapid.IntRange(0, 9).Draw(rt, "tailPresented") == 0 {
			c.Source = "whole-file-signed-tail-presented"
		}
		descNearMiss := func() {
			p := &c.Presented
			if kind == "oci" {
				switch rp.Pick(rt, "descMutation", "digest-char", "digest-alg", "size+1", "size-1", "mediatype") {
				case "digest-char":
					b := []byte(p.Digest)
					i := len("sha256:") + rapid.IntRange(0, 63).Draw(rt, "hexAt")
					if b[i] == 'f' {
						b[i] = '0'
					} else if b[i] == '9' {
						b[i] = 'a'
					} else {
						b[i]++
					}
					p.Digest, c.Detail = string(b), c.Detail+"digest-char;"
				case "digest-alg":
					p.Digest, c.Detail = "sha512:"+strings.Repeat(strings.TrimPrefix(p.Digest, "sha256:"), 2), c.Detail+"digest-alg;"
				case "size+1":
					p.Size, c.Detail = p.Size+1, c.Detail+"size+1;"
				case "size-1":
					p.Size, c.Detail = p.Size-1, c.Detail+"size-1;"
				case "mediatype":
					p.MediaType, c.Detail = rp.Pick(rt, "mt", "application/vnd.oci.image.index.v1+json", "application/vnd.oci.image.manifest.v1+JSON", ""), c.Detail+"mediatype;"
				}
				return
			}
			switch rp.Pick(rt, "blobMutation", "flip-byte", "append-byte", "drop-byte", "content-type", "other-blob-same-size") {
			case "flip-byte":
				b := append([]byte{}, p.Blob...)
				b[rapid.IntRange(0, len(b)-1).Draw(rt, "at")] ^= 0x20
				p.Blob, c.Detail = b, c.Detail+"flip-byte;"
			case "append-byte":
				p.Blob, c.Detail = append(append([]byte{}, p.Blob...), 'z'), c.Detail+"append-byte;"
			case "drop-byte":
				p.Blob, c.Detail = append([]byte{}, p.Blob[:len(p.Blob)-1]...), c.Detail+"drop-byte;"
			case "content-type":
				// another type, or the signed type with a parameter the signed one does not have
				p.MediaType, c.Detail = rp.Pick(rt, "statedType", "text/plain", p.MediaType+"; charset=utf-16", p.MediaType+";v=2"), c.Detail+"content-type;"
			case "other-blob-same-size":
				p.Blob, c.Detail = append([]byte{}, other.blob...), c.Detail+"other-blob;"
			}
		}
		metaNearMiss := func() {
			p := &c.Presented
			if p.Required == nil {
				p.Required = map[string]string{}
			}
			var ks []string
			for k := range ann {
				ks = append(ks, k)
			}
			sort.Strings(ks)
			op := rp.Pick(rt, "metaMutation", "missing-key", "other-value", "case-key", "swap-values", "empty-vs-absent", "pool-pair-not-signed", "pool-pair-not-signed", "separator-shift", "separator-shift")
			if op == "separator-shift" {
				// a required pair whose key and value, written one after the other with a separator, read like a
				// signed pair split at another place: signed "k<sep>x" -> "y" never contains the pair "k" -> "x<sep>y"
				for _, k := range ks {
					for _, sep := range []string{"=", ":", "\x00", " ", ""} {
						if i := strings.Index(k, sep); sep != "" && i > 0 {
							p.Required[k[:i]] = k[i+len(sep):] + sep + ann[k]
							c.Detail += "separator-shift;"
							return
						}
						if i := strings.Index(ann[k], sep); sep != "" && i >= 0 {
							p.Required[k+sep+ann[k][:i]] = ann[k][i+len(sep):]
							c.Detail += "separator-shift;"
							return
						}
					}
				}
			}
			if op == "pool-pair-not-signed" {
				// a pair that OTHER signatures of this run carry (keys and values come from the same small
				// pool) but this one does not: state leaking between verifications would satisfy it
				for _, k := range []string{"env", "Env", "build", "owner", "stage"} {
					if _, signed := ann[k]; !signed {
						p.Required[k] = rp.Pick(rt, "poolValue", "prod", "Prod", "42", "", "dev")
						c.Detail += "pool-pair-not-signed;"
						return
					}
				}
			}
			switch {
			case op == "missing-key" || len(ks) == 0:
				p.Required["not-signed"] = rp.Pick(rt, "nsv", "v", "")
				c.Detail += "missing-key;"
			case op == "other-value":
				k := ks[rapid.IntRange(0, len(ks)-1).Draw(rt, "k")]
				p.Required[k] = ann[k] + "x"
				c.Detail += "other-value;"
			case op == "case-key":
				k := ks[rapid.IntRange(0, len(ks)-1).Draw(rt, "k")]
				alt := strings.ToUpper(k)
				if _, signed := ann[alt]; signed || alt == k {
					alt = k + "_"
				}
				p.Required[alt] = ann[k]
				c.Detail += "case-key;"
			case op == "swap-values" && len(ks) >= 2 && ann[ks[0]] != ann[ks[1]]:
				p.Required[ks[0]], p.Required[ks[1]] = ann[ks[1]], ann[ks[0]]
				c.Detail += "swap-values;"
			default:
				p.Required["absent-key"] = ""
				c.Detail += "empty-vs-absent;"
			}
		}
		switch c.Source {
		case "descriptor-nearmiss":
			descNearMiss()
		case "metadata-nearmiss":
			metaNearMiss()
			if rapid.IntRange(0, 2).Draw(rt, "alsoDescriptor") == 0 {
				descNearMiss()
			}
		case "reassembled":
			e1 := buildEnv(c.Format, sA, other.payload(), envb.PayloadType, c.Plugin)
			e2 := buildEnv(c.Format, sB, art.payload(), envb.PayloadType, c.Plugin)
			e3 := buildEnv(c.Format, sA, art.payload(), envb.PayloadType, c.Plugin) // same content, different signature value
			c.Envelope, c.Detail = reassemble(rt, c.Format, [][]byte{e0, e1, e2, e3}, sA.twinLeaf.Cert)
			if rapid.Bool().Draw(rt, "donorsVerifiedEarlier") {
				c.Earlier = []Earlier{{e0, art.mediaType, art.digest, art.size}, {e1, other.mediaType, other.digest, other.size}, {e3, art.mediaType, art.digest, art.size}}
			}
		case "payload-size-lies":
			// a validly signed payload that names the presented artifact's digest and media type but
			// another size - off by a few, a fraction, a value that only differs beyond 2^53 - and, for
			// blobs, also an EMPTY presented blob whose payload claims a size (0 is a size, not "unstated")
			p := &c.Presented
			if kind == "blob" && rapid.IntRange(0, 2).Draw(rt, "emptyBlob") == 0 {
				p.Blob = []byte{}
				ai, _ := envb.AlgFor(sA.chain.Leaf().Key.Public())
				p.Digest, p.Size = kit.OwnDigest(hashName(ai), p.Blob), 0
			}
			digestOfPresented := p.Digest
			if kind == "blob" {
				ai, _ := envb.AlgFor(sA.chain.Leaf().Key.Public())
				digestOfPresented = kit.OwnDigest(hashName(ai), p.Blob)
			}
			presentedSize := p.Size
			if kind == "blob" {
				presentedSize = int64(len(p.Blob))
			}
			sizeToken := rp.Pick(rt, "sizeToken", fmt.Sprint(presentedSize+7), fmt.Sprint(presentedSize+1), fmt.Sprintf("%d.5", presentedSize), fmt.Sprintf("%d.25e0", presentedSize), fmt.Sprintf("%de1", presentedSize+1))
			if kind == "oci" && c.Format == envb.MTCOSE && rapid.IntRange(0, 3).Draw(rt, "hugeSize") == 0 {
				p.Size, sizeToken = 1<<53, "9007199254740993" // presented 2^53, signed 2^53+1
			}
			ann, _ := json.Marshal(art.ann)
			if art.ann == nil {
				ann = []byte("null")
			}
			payload := fmt.Sprintf(`{"targetArtifact":{"mediaType":%q,"digest":%q,"size":%s,"annotations":%s}}`, art.mediaType, digestOfPresented, sizeToken, ann)
			if art.ann == nil {
				payload = fmt.Sprintf(`{"targetArtifact":{"mediaType":%q,"digest":%q,"size":%s}}`, art.mediaType, digestOfPresented, sizeToken)
			}
			c.Envelope = buildEnv(c.Format, sA, []byte(payload), envb.PayloadType, c.Plugin)
			c.Detail = "size=" + sizeToken
		case "signed-for-the-empty-blob":
			// a valid signature of the signer for the EMPTY blob, its digest computed with another
			// algorithm than the one bound to the signing key (or with that one); a non-empty blob is
			// presented. A verification that digests the presented blob a second time would, on a
			// reader that has been read to its end, digest nothing
			ai, _ := envb.AlgFor(sA.chain.Leaf().Key.Public())
			alg := rp.Pick(rt, "emptyBlobAlg", "sha256", "sha384", "sha512", hashName(ai))
			payload := fmt.Sprintf(`{"targetArtifact":{"mediaType":%q,"digest":%q,"size":0}}`, art.mediaType, kit.OwnDigest(alg, nil))
			c.Envelope = buildEnv(c.Format, sA, []byte(payload), envb.PayloadType, c.Plugin)
			c.Detail = "empty-blob-digest-alg=" + alg
		case "whole-file-signed-tail-presented":
			// the signer's valid signature over header+blob; the caller has consumed the header of its
			// seekable source and presents what is left: the blob, which is another artifact
			header := []byte(rp.Pick(rt, "header", "MAGIC\x00\x01", "#!/bin/sh\n", "x"))
			whole := append(append([]byte{}, header...), art.blob...)
			ai, _ := envb.AlgFor(sA.chain.Leaf().Key.Public())
			payload := fmt.Sprintf(`{"targetArtifact":{"mediaType":%q,"digest":%q,"size":%d}}`, art.mediaType, kit.OwnDigest(hashName(ai), whole), len(whole))
			c.Envelope = buildEnv(c.Format, sA, []byte(payload), envb.PayloadType, c.Plugin)
			c.Presented.Skipped = header
			c.Detail = "signed-whole-presented-tail"
		case "wrong-payload-type":
			switch rp.Pick(rt, "wrongType", "content-type", "other-shape", "descriptor-at-top", "empty-object") {
			case "content-type":
				c.Envelope = buildEnv(c.Format, sA, art.payload(), rp.Pick(rt, "cty", "application/json", "application/vnd.cncf.notary.payload.v2+json", "text/plain",
					// near the Notary payload type, and not it: the type is one exact string
					envb.PayloadType+"x", "application/vnd.cncf.notary.payload.v10+json", "application/vnd.cncf.notary.payload.v1.revocation+json", "application/vnd.cncf.notary.payload.v1+json+json",
					"Application/vnd.cncf.notary.payload.v1+json", envb.PayloadType+"; charset=utf-8", " "+envb.PayloadType, "application/vnd.cncf.notary.payload.v1", "application/vnd.cncf.notary.payload.v1+cbor"), c.Plugin)
				c.Detail = "content-type"
			case "other-shape":
				c.Envelope = buildEnv(c.Format, sA, []byte(`{"subject":{"digest":"`+art.digest+`"}}`), envb.PayloadType, c.Plugin)
				c.Detail = "other-shape"
			case "descriptor-at-top":
				b, _ := json.Marshal(map[string]any{"mediaType": art.mediaType, "digest": art.digest, "size": art.size})
				c.Envelope = buildEnv(c.Format, sA, b, envb.PayloadType, c.Plugin)
				c.Detail = "descriptor-at-top"
			case "empty-object":
				c.Envelope = buildEnv(c.Format, sA, []byte(`{}`), envb.PayloadType, c.Plugin)
				c.Detail = "empty-object"
			}
		case "bytemutated":
			c.Envelope, c.Detail = byteMutate(rt, c.Format, e0)
			if rapid.Bool().Draw(rt, "originalVerifiedEarlier") {
				c.Earlier = []Earlier{{e0, art.mediaType, art.digest, art.size}}
			}
		}
		if (c.Source == "descriptor-nearmiss" || c.Source == "metadata-nearmiss") && rapid.IntRange(0, 2).Draw(rt, "genuineVerifiedEarlier") == 0 {
			c.Earlier = []Earlier{{e0, art.mediaType, art.digest, art.size}}
		}
		if kind == "blob" {
			c.Presented.Reader = rp.Pick(rt, "reader", "bytes", "bytes", "multi-split", "multi-split", "one-byte", "data-with-eof", "half", "error-at-end", "error-in-the-middle", "advanced-seekable")
			if c.Source == "whole-file-signed-tail-presented" {
				c.Presented.Reader = "advanced-seekable"
			} else if c.Presented.Reader == "advanced-seekable" {
				c.Presented.Skipped = []byte("header the caller has read")
			}
			c.Presented.SplitAt = len(art.blob) // a prefix Read returns exactly the blob that was signed
		}
		if c.Entry == "notation.Verify" && rapid.Bool().Draw(rt, "decoys") {
			// earlier listed signatures of the same signer: each lacks part of the signed metadata, or is
			// for the other artifact; none of them may make a verification succeed that the oracle refuses
			var ks []string
			for k := range ann {
				ks = append(ks, k)
			}
			sort.Strings(ks)
			for i := 0; i < rapid.IntRange(1, 3).Draw(rt, "decoyCount"); i++ {
				sub := map[string]string{}
				for _, k := range ks {
					if rapid.Bool().Draw(rt, "decoyKeeps:"+k) {
						sub[k] = ann[k]
					}
				}
				target := art
				if rapid.IntRange(0, 3).Draw(rt, "decoyOtherArtifact") == 0 {
					target = other
				}
				d := *target
				d.ann = sub
				c.Decoys = append(c.Decoys, buildEnv(c.Format, sA, d.payload(), envb.PayloadType, c.Plugin))
			}
		}
		res, herr := execute(c, sA)
		if herr != nil {
			rt.Fatalf("harness: %v", herr)
		}
		parsed := false // by the harness's own splitter: the envelope is structurally an envelope
		if c.Format == envb.MTJWS {
			_, e := envb.SplitJWS(c.Envelope)
			parsed = e == nil
		} else {
			_, e := envb.SplitCOSE(c.Envelope)
			parsed = e == nil
		}
		cl := []string{"src=" + c.Source, "scheme=" + c.Scheme, "entry=" + c.Entry, "format=" + c.Format, "keyspec=" + c.KeySpec, "kind=" + kind, "map=" + c.Level.Key()}
		if res.success {
			cl = append(cl, "success", "success:src="+c.Source)
		} else {
			cl = append(cl, "rejected")
		}
		if c.Plugin {
			cl = append(cl, "with-plugin")
		}
		if c.PluginKind != "" {
			cl = append(cl, "plugin-misbehaves="+c.PluginKind)
		}
		if !c.Trusted {
			cl = append(cl, "untrusted-root")
		}
		if len(c.Presented.Required) > 0 {
			cl = append(cl, "metadata-required")
		}
		if c.Presented.Reader != "" {
			cl = append(cl, "reader="+c.Presented.Reader)
		}
		if len(c.Decoys) > 0 {
			cl = append(cl, "listed-with-decoys")
		}
		if len(c.Earlier) > 0 {
			cl = append(cl, "genuine-signature-verified-earlier-on-the-same-verifier")
			if c.Source == "reassembled" {
				cl = append(cl, "reassembled-from-signatures-verified-earlier")
			}
		}
		for _, d := range strings.Split(c.Detail, ";") {
			if d != "" && c.Source != "reassembled" {
				cl = append(cl, "detail="+d)
			}
		}
		pj, _ := json.Marshal(c.Presented)
		rec.Case(cl, parsed || res.success, stats.Fingerprint(c.Envelope[:min(len(c.Envelope), 4096)], pj, c.Level.Key(), c.Entry, c.Trusted, c.Identity), func() any {
			cc := *c
			cc.Envelope = nil // samples stay small; the replay file keeps the bytes
			return map[string]any{"case": cc, "envelope_sha256": fmt.Sprintf("%x", sha256.Sum256(c.Envelope)), "success": res.success}
		})
		plainReader := c.Presented.Reader == "" || c.Presented.Reader == "bytes" || c.Entry != "notation.VerifyBlob"
		if c.Source == "fresh" && c.Trusted && c.Identity != "pinned-other" && !res.success && !plainReader {
			cl = append(cl, "fresh-rejected-with-unusual-reader") // completeness is C07's subject; here it is only counted
		}
		if c.Source == "fresh" && c.Trusted && c.Identity != "pinned-other" && !res.success && plainReader && c.PluginKind == "" {
			// cross-validation of the harness's builders: a fresh, trusted envelope must verify
			rt.Fatalf("harness: fresh envelope rejected under %s: %v", c.Level.String(), res.err)
		}
		if res.success {
			if res.outcome == nil {
				rec.Failf(rt, "C01:success-without-outcome:"+c.Entry, c, "no error but a nil outcome")
				return
			}
			judged := c.Envelope
			if c.Entry == "notation.Verify" && len(c.Decoys) > 0 {
				// several signatures were listed: the outcome says which one verified
				judged = res.outcome.RawSignature
				known := bytes.Equal(judged, c.Envelope)
				for _, d := range c.Decoys {
					known = known || bytes.Equal(judged, d)
				}
				if !known {
					rec.Failf(rt, "C01:success-for-unlisted-signature", c, "the successful outcome's raw signature is none of the listed envelopes")
					return
				}
			}
			if key, msg := oracleFor(c, judged); key != "" {
				rec.Failf(rt, key, c, "%s (source %s %s, level %s)", msg, c.Source, c.Detail, c.Level.String())
			}
		}
	})
}

func min(a, b int) int {
	if a < b {
		return a
	}
	return b
}

var _ = trustpolicy.LevelStrict
