// C05 — revocation checking fails closed over the whole certificate chain.
// Exhaustive over all result vectors in {OK, NonRevokable, Unknown, Revoked}^n, n = 1..4,
// x action x validator interface x scheme; sampled decorations. DESIGN.md section 5, C05.
package c05

import (
	"context"
	"crypto/x509"
	"crypto/x509/pkix"
	"errors"
	"fmt"
	"github.com/opencontainers/go-digest"
	ocispec "github.com/opencontainers/image-spec/specs-go/v1"
	"strings"
	"sync"
	"testing"
	"time"

	"github.com/notaryproject/notation-core-go/revocation/result"
	"github.com/notaryproject/notation-go"
	"github.com/notaryproject/notation-go/verifier"
	pf "github.com/notaryproject/notation-plugin-framework-go/plugin"
	"pgregory.net/rapid"

	"verifharness/internal/envb"
	"verifharness/internal/kit"
	"verifharness/internal/mocks"
	"verifharness/internal/pki"
	"verifharness/internal/rp"
	"verifharness/internal/stats"
)

const rule = "case = (chain length, result vector, decorations, validator error, interface, revocation action, scheme, format); non-trivial = the vector has a non-OK entry or the validator errs; distinct by the tuple"

// Case is the replay format.
type Case struct {
	Vector   []int  `json:"vector"`         // per chain position (leaf first): 0 Unknown 1 OK 2 NonRevokable 3 Revoked, 7 = out-of-range status
	Decor    []int  `json:"decor"`          // per position decoration selector
	ValErr   bool   `json:"valErr"`         // validator-level error
	ErrWithR bool   `json:"errWithResults"` // ... returned together with a result vector
	Iface    string `json:"iface"`          // validator | client
	Action   string `json:"action"`         // enforce | log | skip
	Base     string `json:"base"`           // base level the action is expressed through
	Scheme   string `json:"scheme"`         // x509 | sa
	Format   string `json:"format"`
	NilEntry bool   `json:"-"`
	Warm     []int  `json:"warm,omitempty"` // result vector of an earlier verification on the same verifier (not judged)
	// Subjects: "" ordinary subjects, "empty-leaf" the signing certificate has an empty subject DN
	Subjects string `json:"subjects,omitempty"`
	// Cancel: the caller's context is cancelled while the validator is being consulted;
	// "answer" = the validator still answers with its scripted vector a little later,
	// "ctxerr" = the context-aware validator answers with the context's error
	Cancel string `json:"cancel,omitempty"`
	// Validity: "expired-nonleaf" = a certificate behind the leaf (the intermediate; the root of a
	// two-certificate chain) was valid at the signing time but has expired by now, and the level
	// only logs the authentic-timestamp validation: the revocation check still sees the whole chain
	Validity string `json:"validity,omitempty"`
	// Plugin "ti-only": the signature names an installed verification plugin that owns the
	// trusted-identity check only (and answers success); revocation stays notation's own business
	Plugin string `json:"plugin,omitempty"`
	// Ctor "legacy": the verifier is built with the deprecated NewWithOptions (same options)
	Ctor string `json:"ctor,omitempty"`
	// Anchor: which certificate of the chain the trust store holds: 0 (default) the root, k > 0 the
	// certificate k positions above the leaf ... ; -1 the leaf itself. Whatever the anchor, the
	// validator is consulted with the complete chain
	Anchor int `json:"anchor,omitempty"`
	// BlobTwin: the verifier also carries a blob document whose statement has the SAME NAME as the
	// OCI statement but this revocation action; a blob verification runs first on the same verifier
	BlobTwin string `json:"blobTwin,omitempty"` // "" skip log enforce
	// SignedAhead: the (authentic) signing time lies 40 minutes ahead of the verifier's clock
	SignedAhead bool `json:"signedAhead,omitempty"`
}

var (
	once   sync.Once
	chains map[string]*pki.Chain
)

func chainOf(n int, subjects string) *pki.Chain {
	once.Do(func() {
		chains = map[string]*pki.Chain{}
		now := time.Now()
		chains["1"] = pki.SelfSignedLeaf(nil, pki.DefaultLeafSubject("c05 selfsigned leaf"), now.Add(-24*time.Hour), now.Add(24*time.Hour))
		for n := 2; n <= 4; n++ {
			chains[fmt.Sprint(n)] = pki.NewChain(pki.ChainOpts{Intermediates: n - 2, Name: fmt.Sprintf("c05 len%d", n)})
			chains[fmt.Sprint(n, "empty-leaf")] = pki.NewChain(pki.ChainOpts{Intermediates: n - 2, Name: fmt.Sprintf("c05 len%d e", n), LeafRaw: pkixEmpty})
			pos := 1
			if n == 2 {
				pos = 1 // the root
			}
			if n == 4 {
				// a CA that was re-certified under its own name (key roll-over): the two intermediates carry the
				// same subject; they are two certificates all the same, each with a status of its own
				same := pkix.Name{Country: []string{"US"}, Province: []string{"WA"}, Organization: []string{"verif"}, CommonName: "c05 rolled-over ca"}.ToRDNSequence()
				chains[fmt.Sprint(n, "same-subject-cas")] = pki.NewChain(pki.ChainOpts{Intermediates: 2, Name: "c05 len4 s", RawSubjects: map[int]pkix.RDNSequence{1: same, 2: same}})
			}
			chains[fmt.Sprint(n, "expired-nonleaf")] = pki.NewChain(pki.ChainOpts{Intermediates: n - 2, Name: fmt.Sprintf("c05 len%d x", n),
				Windows: map[int][2]time.Time{pos: {now.Add(-72 * time.Hour), now.Add(-5 * time.Minute)}}})
		}
	})
	if n == 1 {
		subjects = "" // a self-signed leaf with an empty subject is not a usable signing certificate
	}
	if subjects == "same-subject-cas" && n != 4 {
		subjects = ""
	}
	return chains[fmt.Sprint(n)+subjects]
}

func decorate(sel int) func(i int, r *result.CertRevocationResult) {
	return func(i int, r *result.CertRevocationResult) {
		switch sel {
		case 1: // CRL method
			r.RevocationMethod = result.RevocationMethodCRL
			r.ServerResults = []*result.ServerResult{{Result: r.Result, Server: "http://crl.example/x.crl", RevocationMethod: result.RevocationMethodCRL}}
		case 2: // OCSP failed, fell back to CRL; the OCSP server result carries an error
			r.RevocationMethod = result.RevocationMethodOCSPFallbackCRL
			r.ServerResults = []*result.ServerResult{
				{Result: result.ResultUnknown, Server: "http://ocsp.example", Error: errors.New("ocsp timeout"), RevocationMethod: result.RevocationMethodOCSP},
				{Result: r.Result, Server: "http://crl.example/x.crl", RevocationMethod: result.RevocationMethodCRL}}
		case 3: // several servers, some with errors
			r.ServerResults = []*result.ServerResult{
				{Result: result.ResultUnknown, Server: "http://ocsp1.example", Error: errors.New("server error"), RevocationMethod: result.RevocationMethodOCSP},
				{Result: r.Result, Server: "http://ocsp2.example", RevocationMethod: result.RevocationMethodOCSP}}
		case 4: // no server results at all, unknown method (root certificates look like this)
			r.RevocationMethod = result.RevocationMethodUnknown
			r.ServerResults = nil
		case 6: // fallback annotation whose trailing CRL server result says OK whatever the certificate result says
			r.RevocationMethod = result.RevocationMethodOCSPFallbackCRL
			r.ServerResults = []*result.ServerResult{
				{Result: result.ResultUnknown, Server: "http://ocsp.example", Error: errors.New("ocsp timeout"), RevocationMethod: result.RevocationMethodOCSP},
				{Result: result.ResultOK, Server: "http://crl.example/x.crl", RevocationMethod: result.RevocationMethodCRL}}
		case 5: // server results disagree with the certificate result (the certificate result is what counts)
			r.ServerResults = []*result.ServerResult{{Result: result.ResultOK, Server: "http://ocsp.example", RevocationMethod: result.RevocationMethodOCSP},
				{Result: result.ResultRevoked, Server: "http://ocsp3.example", RevocationMethod: result.RevocationMethodOCSP}}
		}
	}
}

func check(c Case) (string, string) {
	n := len(c.Vector)
	variant := c.Subjects
	if c.Validity != "" && n > 1 {
		variant = c.Validity
	}
	ch := chainOf(n, variant)
	now := time.Now()
	signingTime := now.Add(-time.Hour).Truncate(time.Second)
	if c.SignedAhead {
		signingTime = now.Add(40 * time.Minute).Truncate(time.Second) // the signer's clock runs ahead of the verifier's
	}
	scheme, storeType := envb.SchemeX509, "ca"
	if c.Scheme == "sa" {
		scheme, storeType = envb.SchemeSA, "signingAuthority"
	}
	desc := kit.Artifact("c05")
	spec := envb.Spec{Format: c.Format, Payload: envb.PayloadFor(desc.MediaType, desc.Digest.String(), desc.Size, nil), ContentType: envb.PayloadType,
		Scheme: scheme, SigningTime: signingTime, Chain: ch.X509(), Key: ch.Leaf().Key}
	if c.Plugin != "" {
		spec.Ext = []envb.Attr{{Key: envb.AttrPlugin, Critical: true, Value: "c05-plugin"}}
	}
	env := envb.Build(spec)
	rev := &mocks.Revocation{Decor: func(i int, r *result.CertRevocationResult) {
		if i < len(c.Decor) {
			decorate(c.Decor[i])(i, r)
		}
	}}
	for _, v := range c.Vector {
		rev.Results = append(rev.Results, result.Result(v))
	}
	if c.ValErr {
		rev.Err = errors.New("scripted validator failure")
		rev.ErrWithResults = c.ErrWithR
	}
	target := map[string]string{"authenticity": "enforce", "authenticTimestamp": "enforce", "expiry": "enforce", "revocation": c.Action}
	if variant == "expired-nonleaf" {
		target["authenticTimestamp"] = "log"
	}
	level := kit.LevelFor(c.Base, target, false)
	anchor := ch.Root().Cert
	switch {
	case c.Anchor == -1:
		anchor = ch.Certs[0].Cert
	case c.Anchor > 0 && c.Anchor < len(ch.Certs):
		anchor = ch.Certs[c.Anchor].Cert
	}
	ts := mocks.NewTrustStore().Put(storeType, "x", anchor)
	opts := kit.Options()
	opts.OCITrustPolicy = kit.OCIDoc("p", level.SV(""), []string{storeType + ":x"}, []string{"*"})
	if c.BlobTwin != "" {
		tt := map[string]string{"authenticity": "enforce", "authenticTimestamp": target["authenticTimestamp"], "expiry": "enforce", "revocation": c.BlobTwin}
		opts.BlobTrustPolicy = kit.BlobDoc("p", kit.LevelFor("strict", tt, false).SV(""), []string{storeType + ":x"}, []string{"*"})
	}
	if c.Iface == "client" {
		opts.RevocationCodeSigningValidator = nil
		opts.RevocationClient = rev.Client()
	} else {
		opts.RevocationCodeSigningValidator = rev
	}
	if c.Plugin != "" {
		opts.PluginManager = &mocks.Manager{Plugins: map[string]pf.Plugin{"c05-plugin": &mocks.Plugin{Name: "c05-plugin", Version: "1.0.0",
			Capabilities: []pf.Capability{pf.CapabilityTrustedIdentityVerifier}}}}
	}
	var v notation.Verifier
	var err error
	if c.Ctor == "legacy" {
		v, err = verifier.NewWithOptions(opts.OCITrustPolicy, ts, opts.PluginManager, opts)
	} else {
		v, err = verifier.NewVerifierWithOptions(ts, opts)
	}
	if err != nil {
		return "harness", "verifier construction: " + err.Error()
	}
	if c.BlobTwin != "" {
		if bv, ok := v.(notation.BlobVerifier); ok {
			saved, savedErr := rev.Results, rev.Err
			rev.Results, rev.Err = nil, nil
			bv.VerifyBlob(context.Background(), func(digest.Algorithm) (ocispec.Descriptor, error) { return desc, nil }, env, notation.BlobVerifierVerifyOptions{SignatureMediaType: c.Format, TrustPolicyName: "p"})
			rev.Results, rev.Err, rev.Calls = saved, savedErr, nil
		}
	}
	if len(c.Warm) > 0 {
		saved, savedErr := rev.Results, rev.Err
		rev.Results, rev.Err = nil, nil
		for _, w := range c.Warm {
			rev.Results = append(rev.Results, result.Result(w))
		}
		v.Verify(context.Background(), desc, env, notation.VerifierVerifyOptions{ArtifactReference: kit.Reference(desc), SignatureMediaType: c.Format})
		rev.Results, rev.Err, rev.Calls = saved, savedErr, nil
	}
	ctx := context.Background()
	if c.Cancel != "" {
		var cancel context.CancelFunc
		ctx, cancel = context.WithCancel(ctx)
		defer cancel()
		rev.OnCall, rev.Delay, rev.CtxErr = cancel, 3*time.Millisecond, c.Cancel == "ctxerr" && c.Iface == "validator"
	}
	out, verr := v.Verify(ctx, desc, env, notation.VerifierVerifyOptions{ArtifactReference: kit.Reference(desc), SignatureMediaType: c.Format})
	if out == nil {
		return "C05:nil-outcome", fmt.Sprintf("nil outcome, err=%v", verr)
	}
	var revRes *notation.ValidationResult
	nRev := 0
	for _, r := range out.VerificationResults {
		if r.Type == "revocation" {
			revRes = r
			nRev++
		} else if r.Error != nil && !(variant == "expired-nonleaf" && r.Type == "authenticTimestamp") {
			return "harness", fmt.Sprintf("validation %s failed unexpectedly: %v", r.Type, r.Error)
		}
	}
	if c.Action == "skip" {
		if rev.NumCalls() != 0 {
			return "C05:skip:validator-consulted", "revocation is skipped but the validator was consulted"
		}
		if nRev != 0 {
			return "C05:skip:result-reported", "revocation is skipped but a revocation result is reported"
		}
		if verr != nil {
			return "C05:skip:verification-failed", fmt.Sprintf("revocation skipped, everything else valid, yet verification failed: %v", verr)
		}
		return "", ""
	}
	// the validator is consulted with the complete chain and the right signing time
	if rev.NumCalls() < 1 {
		return "C05:validator-not-consulted", "revocation is not skipped but the validator was never consulted"
	}
	for _, call := range rev.Calls {
		if call.Interface != c.Iface {
			return "harness", "wrong interface used: " + call.Interface
		}
		if len(call.Chain) != n {
			return "C05:chain-truncated", fmt.Sprintf("validator received %d certificates of a chain of %d", len(call.Chain), n)
		}
		for i, cert := range call.Chain {
			if !cert.Equal(ch.Certs[i].Cert) {
				return "C05:chain-reordered", fmt.Sprintf("validator received a different certificate at position %d", i)
			}
		}
		if c.Scheme == "x509" && !call.SigningTime.IsZero() {
			return "C05:signing-time:passed-for-x509", fmt.Sprintf("notary.x509 signature but validator received signing time %v", call.SigningTime)
		}
		if c.Scheme == "sa" && !call.SigningTime.Equal(signingTime) {
			return "C05:signing-time:wrong-for-signing-authority", fmt.Sprintf("signing-authority signature signed at %v but validator received %v", signingTime, call.SigningTime)
		}
	}
	if nRev != 1 {
		return "C05:result-count", fmt.Sprintf("%d revocation results reported", nRev)
	}
	if string(revRes.Action) != c.Action {
		return "C05:action-tag", fmt.Sprintf("revocation result tagged %q, level says %q", revRes.Action, c.Action)
	}
	// aggregation oracle
	allGood, anyRevoked := true, false
	for _, x := range c.Vector {
		if x != int(result.ResultOK) && x != int(result.ResultNonRevokable) {
			allGood = false
		}
		if x == int(result.ResultRevoked) {
			anyRevoked = true
		}
	}
	// a validator that answers with the context's error has not established anything
	ctxErr := c.Cancel == "ctxerr" && c.Iface == "validator"
	wantFail := c.ValErr || ctxErr || !allGood
	if wantFail != (revRes.Error != nil) {
		return "C05:aggregation:" + map[bool]string{true: "failure-missed", false: "spurious-failure"}[wantFail],
			fmt.Sprintf("vector %v valErr=%v: model fail=%v, library error=%v", c.Vector, c.ValErr, wantFail, revRes.Error)
	}
	if wantFail && !c.ValErr && !ctxErr {
		msg := revRes.Error.Error()
		if anyRevoked {
			if !strings.Contains(msg, "is revoked") {
				return "C05:aggregation:revoked-masked", fmt.Sprintf("vector %v contains Revoked but the failure is not reported as revoked: %s", c.Vector, msg)
			}
			// certificates are named by subject; a subject that a revoked and another certificate share
			// (re-certified CA) names the revoked one
			revokedSubjects := map[string]bool{}
			for i, x := range c.Vector {
				if x == int(result.ResultRevoked) {
					revokedSubjects[subjectOf(ch.Certs[i].Cert)] = true
				}
			}
			namesRevoked, namesOther := false, false
			for i := range c.Vector {
				if sub := subjectOf(ch.Certs[i].Cert); strings.Contains(msg, fmt.Sprintf("%q", sub)) {
					if revokedSubjects[sub] {
						namesRevoked = true
					} else {
						namesOther = true
					}
				}
			}
			if !namesRevoked || namesOther {
				return "C05:aggregation:wrong-certificate-named", fmt.Sprintf("vector %v: the error does not name a revoked certificate (and only such): %s", c.Vector, msg)
			}
		} else if strings.Contains(msg, "is revoked") {
			return "C05:aggregation:unknown-reported-as-revoked", fmt.Sprintf("vector %v has no Revoked entry but the error says revoked: %s", c.Vector, msg)
		}
	}
	// enforce rejects, log reports but accepts
	switch c.Action {
	case "enforce":
		if wantFail != (verr != nil) {
			return "C05:enforce:decision", fmt.Sprintf("revocation failed=%v under enforce but Verify returned err=%v", wantFail, verr)
		}
	case "log":
		if verr != nil {
			return "C05:log:rejected", fmt.Sprintf("revocation is log but Verify failed: %v", verr)
		}
	}
	return "", ""
}

var pkixEmpty = pkix.RDNSequence{}

func subjectOf(c *x509.Certificate) string { return c.Subject.String() }

func record(rec *stats.Recorder, c Case) {
	final := "ok"
	nt := c.ValErr
	for _, x := range c.Vector {
		if x != 1 && x != 2 {
			nt = true
			if final != "revoked" {
				final = "unknown"
			}
		}
		if x == 3 {
			final = "revoked"
		}
	}
	cl := []string{"final=" + final, "action=" + c.Action, "iface=" + c.Iface, "scheme=" + c.Scheme, "format=" + c.Format, fmt.Sprintf("len=%d", len(c.Vector)), "base=" + c.Base}
	if c.ValErr {
		cl = append(cl, "validator-error")
		if c.ErrWithR {
			cl = append(cl, "validator-error-with-results")
		}
	}
	for _, d := range c.Decor {
		if d != 0 {
			cl = append(cl, fmt.Sprintf("decor=%d", d))
		}
	}
	for _, x := range c.Vector {
		if x == 7 {
			cl = append(cl, "status=out-of-range")
		}
	}
	if len(c.Warm) > 0 {
		cl = append(cl, "reused-verifier")
	}
	if c.Subjects != "" && len(c.Vector) > 1 {
		cl = append(cl, "subjects="+c.Subjects)
	}
	if c.Cancel != "" {
		cl = append(cl, "context-cancelled-during-check", "cancel="+c.Cancel)
	}
	if c.Validity != "" && len(c.Vector) > 1 {
		cl = append(cl, "validity="+c.Validity)
	}
	if c.Plugin != "" {
		cl = append(cl, "identity-only-plugin")
	}
	if c.Ctor != "" {
		cl = append(cl, "constructor="+c.Ctor)
	}
	if c.Anchor != 0 {
		cl = append(cl, "trust-anchor-is-not-the-root")
	}
	if c.SignedAhead {
		cl = append(cl, "signing-time-ahead-of-the-verifier")
	}
	if c.BlobTwin != "" {
		cl = append(cl, "blob-statement-with-same-name", "blob-twin-revocation="+c.BlobTwin)
	}
	rec.Case(cl, nt, stats.Fingerprint(c.Subjects, c.Cancel, c.Validity, c.Plugin, c.Ctor, fmt.Sprint(c.Vector), fmt.Sprint(c.Warm), fmt.Sprint(c.Decor), c.ValErr, c.ErrWithR, c.Iface, c.Action, c.Base, c.Scheme, c.Format, c.Anchor, c.BlobTwin, c.SignedAhead), func() any { return c })
}

func evaluate(t stats.Failer, rec *stats.Recorder, c Case) {
	record(rec, c)
	key, msg := check(c)
	if key == "harness" {
		t.Fatalf("harness: %s (case %+v)", msg, c)
	}
	if key != "" {
		rec.Failf(t, key, c, "%s", msg)
	}
}

// TestC05_Vectors enumerates all 340 vectors x 3 actions x 2 interfaces (x both schemes and
// formats, rotated in quick and fully crossed in thorough).
func TestC05_Vectors(t *testing.T) {
	rec := stats.New(t, "C05", rule)
	var rc Case
	if rp.ReplayCase(&rc) {
		evaluate(t, rec, rc)
		return
	}
	shard, shards := stats.Shard()
	idx := 0
	thorough := true // the full cross is cheap enough for every tier
	for n := 1; n <= 4; n++ {
		total := 1 << (2 * n)
		for code := 0; code < total; code++ {
			vec := make([]int, n)
			x := code
			for i := range vec {
				vec[i] = x & 3
				x >>= 2
			}
			for ai, action := range []string{"enforce", "log", "skip"} {
				for ii, iface := range []string{"validator", "client"} {
					idx++
					if idx%shards != shard {
						continue
					}
					bases := []string{"strict", "permissive", "audit"}
					if thorough {
						for _, scheme := range []string{"x509", "sa"} {
							for _, f := range envb.Formats {
								for _, valErr := range []bool{false, true} {
									evaluate(t, rec, Case{Vector: vec, Iface: iface, Action: action, Base: bases[(code+ai)%3], Scheme: scheme, Format: f, ValErr: valErr, ErrWithR: valErr && code%2 == 0})
								}
							}
						}
						if n > 1 { // the same vector on a chain with an expired certificate behind the leaf (authentic timestamp only logged)
							evaluate(t, rec, Case{Vector: vec, Iface: iface, Action: action, Base: bases[(code+ai+1)%3], Scheme: []string{"x509", "sa"}[(code+1)%2], Format: envb.Formats[(code/2+1)%2], Validity: "expired-nonleaf"})
						}
						if n > 1 { // the same vector on a chain whose signing certificate has an empty subject
							evaluate(t, rec, Case{Vector: vec, Iface: iface, Action: action, Base: bases[(code+ai+2)%3], Scheme: []string{"x509", "sa"}[code%2], Format: envb.Formats[(code/2)%2], Subjects: "empty-leaf"})
						}
					} else {
						evaluate(t, rec, Case{Vector: vec, Iface: iface, Action: action, Base: bases[(code+ai)%3],
							Scheme: []string{"x509", "sa"}[(code+ii)%2], Format: envb.Formats[(code/2+ai)%2], ValErr: false})
						if code%8 == 0 {
							evaluate(t, rec, Case{Vector: vec, Iface: iface, Action: action, Base: bases[(code+ai+1)%3],
								Scheme: []string{"x509", "sa"}[(code+ii+1)%2], Format: envb.Formats[(code/2+ai+1)%2], ValErr: true})
						}
					}
				}
			}
		}
	}
	rec.Exhaustive()
}

// TestC05_Decorated samples decorations (methods, server errors, out-of-range statuses).
func TestC05_Decorated(t *testing.T) {
	rec := stats.New(t, "C05", rule)
	rp.Check(t, 6000, 2500000, func(rt *rapid.T) {
		n := rapid.IntRange(1, 4).Draw(rt, "len")
		c := Case{Iface: rp.Pick(rt, "iface", "validator", "client"), Action: rp.Pick(rt, "action", "enforce", "enforce", "log", "skip"),
			Base: rp.Pick(rt, "base", "strict", "permissive", "audit"), Scheme: rp.Pick(rt, "scheme", "x509", "sa"),
			Format: rp.Pick(rt, "format", envb.MTJWS, envb.MTCOSE), ValErr: rapid.IntRange(0, 9).Draw(rt, "valErr") == 0,
			ErrWithR: rapid.Bool().Draw(rt, "errWithResults")}
		for i := 0; i < n; i++ {
			c.Vector = append(c.Vector, rp.Pick(rt, "status", 1, 1, 1, 2, 0, 3, 7))
			c.Decor = append(c.Decor, rapid.IntRange(0, 6).Draw(rt, "decor"))
		}
		if rapid.IntRange(0, 2).Draw(rt, "warm") == 0 {
			for i := 0; i < n; i++ {
				c.Warm = append(c.Warm, rp.Pick(rt, "warmStatus", 1, 1, 2, 0, 3))
			}
		}
		c.Subjects = rp.Pick(rt, "subjects", "", "", "", "empty-leaf", "same-subject-cas")
		c.SignedAhead = rapid.IntRange(0, 4).Draw(rt, "signedAhead") == 0
		if c.Subjects == "" {
			c.Validity = rp.Pick(rt, "validity", "", "", "", "expired-nonleaf")
		}
		c.Plugin = rp.Pick(rt, "plugin", "", "", "", "ti-only")
		c.Ctor = rp.Pick(rt, "ctor", "", "", "legacy")
		if n >= 2 && rapid.IntRange(0, 2).Draw(rt, "anchorNotRoot") == 0 {
			c.Anchor = rp.Pick(rt, "anchor", -1, 1, 1, n-2)
			if c.Anchor == 0 {
				c.Anchor = -1
			}
		}
		if c.Ctor == "" {
			c.BlobTwin = rp.Pick(rt, "blobTwin", "", "", "", "skip", "log", "enforce")
		}
		if rapid.IntRange(0, 11).Draw(rt, "cancel") == 0 {
			c.Cancel = rp.Pick(rt, "cancelKind", "answer", "ctxerr")
		}
		evaluate(rt, rec, c)
	})
}
