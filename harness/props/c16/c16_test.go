// C16 — a plugin name can never reach outside the plugin directory.
// Names from a traversal grammar against plugin roots at several depths inside a
// sacrificial tree with planted sentinel executables and decoys; no-execution / no-change
// tree-diff oracle; end-to-end through verifier.Verify. DESIGN.md section 5, C16.
//
// SAFETY: the code under test may delete and execute wherever a name resolves. Every case
// lives in <tmp>/c16-*/p1/p2/p3/p4/p5/p6/base/...; names carry at most 5 ".." components, so
// even an unguarded resolution stays inside the per-case temporary directory; in addition
// every case whose resolution (computed here with filepath.Join) leaves "base" is skipped.
package c16

import (
	"context"
	"encoding/json"
	"fmt"
	"net/url"
	"os"
	"path/filepath"
	"sort"
	"strings"
	"sync"
	"testing"
	"time"

	"github.com/notaryproject/notation-go"
	"github.com/notaryproject/notation-go/dir"
	"github.com/notaryproject/notation-go/plugin"
	"github.com/notaryproject/notation-go/verifier"
	pf "github.com/notaryproject/notation-plugin-framework-go/plugin"
	"pgregory.net/rapid"

	"verifharness/internal/envb"
	"verifharness/internal/kit"
	"verifharness/internal/mocks"
	"verifharness/internal/pki"
	"verifharness/internal/rp"
	"verifharness/internal/sandbox"
	"verifharness/internal/stats"
)

const rule = "case = (plugin name from the traversal grammar, plugin root depth, operation: get / uninstall / install-file / install-dir / list / verify-e2e); non-trivial = the name is not a plain single path component (or a list over a mixed root); distinct by (name, depth, operation)"

// Case is the replay format.
type Case struct {
	Name  string `json:"name"`
	Depth int    `json:"depth"`
	Op    string `json:"op"`
	// Symlinked (plain names, uninstall / install): <root>/<name> exists beforehand as a symbolic
	// link to a directory elsewhere; deleting or replacing "the directory <root>/<name>" then means
	// the link, never what it points to
	Symlinked bool `json:"symlinked,omitempty"`
	// LinkTarget (with Symlinked): "" the link's target holds an executable of the plugin's name,
	// "empty" it holds other files only (so that a lookup reports "not installed")
	LinkTarget string `json:"linkTarget,omitempty"`
	// Alone: the plugin root holds nothing but what the case plants for the name (no other
	// installed plugin): the root itself is not "<root>/<name>" either
	Alone bool `json:"alone,omitempty"`
	// NonExecSource (install-dir): the only candidate of the source directory lacks the executable
	// bit (the installer sets it before it asks for the metadata)
	NonExecSource bool `json:"nonExecSource,omitempty"`
	// Neighbours (plain names, install): the plugin is installed already, and beside it live other
	// plugins whose names are the judged name with a suffix an "atomic replace" might use for its own
	// purposes (.old, .new, .bak, .tmp, ~, .orig): installing <name> touches <root>/<name> only
	Neighbours bool `json:"neighbours,omitempty"`
}

// single reports whether name is a single path component (the statement's criterion).
func single(name string) bool {
	return name != "" && name != "." && name != ".." && !strings.ContainsAny(name, "/\x00")
}

// plainForSure: names every reasonable validation accepts (positive control); for other
// single-component names (backslash, spaces, dots, very long) acceptance is optional.
func plainForSure(name string) bool {
	if name == "" || len(name) > 40 {
		return false
	}
	for _, r := range name {
		if !(r >= 'a' && r <= 'z' || r >= 'A' && r <= 'Z' || r >= '0' && r <= '9' || r == '-' || r == '_') {
			return false
		}
	}
	return true
}

type world struct {
	tmp, base, root, marker, src string
	fence                        string // nothing may be touched outside it; snapshots cover it
}

func script(marker, name string) []byte {
	meta, _ := json.Marshal(map[string]any{"name": name, "description": "sentinel", "version": "1.0.0", "url": "https://example.invalid",
		"supportedContractVersions": []string{"1.0"}, "capabilities": []string{"SIGNATURE_VERIFIER.TRUSTED_IDENTITY"}})
	return []byte("#!/bin/sh\necho \"executed $0 $1\" >> '" + marker + "'\ncat <<'VERIF_EOF'\n" + string(meta) + "\nVERIF_EOF\n")
}

// newWorld builds the sacrificial tree. It returns nil when the name could leave base.
func newWorld(c Case) (*world, string, error) {
	tmp, err := os.MkdirTemp("", "c16-")
	if err != nil {
		return nil, "", err
	}
	w := &world{tmp: tmp, base: filepath.Join(tmp, "p1", "p2", "p3", "p4", "p5", "p6", "base")}
	w.marker = filepath.Join(tmp, "marker.log")
	w.fence = filepath.Join(tmp, "p1")
	w.root = w.base
	for i := 0; i < c.Depth-1; i++ {
		w.root = filepath.Join(w.root, fmt.Sprintf("d%d", i))
	}
	w.root = filepath.Join(w.root, "plugins")
	w.src = filepath.Join(w.base, "src")
	// containment guard (own computation of every path the unvalidated code could use)
	for _, p := range []string{filepath.Join(w.root, c.Name), filepath.Join(w.root, c.Name, "notation-"+c.Name), filepath.Join(w.root, "notation-"+c.Name)} {
		if !sandbox.Within(w.fence, p) || filepath.Clean(p) == w.fence {
			os.RemoveAll(tmp)
			return nil, "resolves-outside-sacrificial-tree", nil
		}
	}
	if strings.Count(c.Name, "..") > 5 {
		os.RemoveAll(tmp)
		return nil, "too-many-dotdot", nil
	}
	if err := os.MkdirAll(w.root, 0o755); err != nil {
		return nil, "", err
	}
	if err := os.MkdirAll(w.src, 0o755); err != nil {
		return nil, "", err
	}
	// some unrelated content that must survive everything
	os.WriteFile(filepath.Join(w.base, "precious.txt"), []byte("precious"), 0o644)
	if !c.Alone {
		os.MkdirAll(filepath.Join(w.root, "installed"), 0o755)
		os.WriteFile(filepath.Join(w.root, "installed", "notation-installed"), script(w.marker, "installed"), 0o755)
	}
	os.WriteFile(filepath.Join(filepath.Dir(w.root), "sibling.txt"), []byte("sibling of the plugin root"), 0o644)
	return w, "", nil
}

// alternatives lists what a "helpful" normalisation could turn name into (prefix stripping, trimming,
// cleaning, case folding, unescaping): sentinels and decoys are planted there too, so that a name that
// is validated in one spelling and used in another is observed.
func alternatives(name string) []string {
	seen := map[string]bool{name: true}
	var out []string
	add := func(a string) {
		if !seen[a] && !strings.ContainsRune(a, 0) && len(a) < 200 {
			seen[a] = true
			out = append(out, a)
		}
	}
	add(strings.TrimPrefix(name, "notation-"))
	add(strings.TrimSpace(name))
	add(filepath.Clean(name))
	add(strings.ToLower(name))
	add(strings.TrimSuffix(name, "/"))
	if u, err := url.PathUnescape(name); err == nil {
		add(u)
	}
	add(strings.ReplaceAll(name, "\\", "/"))
	add(filepath.Base(name))
	add(filepath.Base(strings.ReplaceAll(name, "\\", "/")))
	return out
}

// plant puts a sentinel executable where an unvalidated lookup would resolve and a decoy
// directory where an unvalidated uninstall would act. Errors (name too long, NUL) are ignored.
func (w *world) plant(name string) {
	w.plantOne(name) // first: where the name itself resolves; alternatives never clobber it
	for _, alt := range alternatives(name) {
		ok := true
		for _, p := range []string{filepath.Join(w.root, alt), filepath.Join(w.root, alt, "notation-"+alt)} {
			if !sandbox.Within(w.fence, p) || filepath.Clean(p) == w.fence {
				ok = false
			}
		}
		if ok && strings.Count(alt, "..") <= 5 {
			w.plantOne(alt)
		}
	}
}

func (w *world) plantOne(name string) {
	exe := filepath.Join(w.root, name, "notation-"+name)
	if os.MkdirAll(filepath.Dir(exe), 0o755) == nil {
		if fi, err := os.Lstat(exe); err != nil || !fi.IsDir() {
			os.WriteFile(exe, script(w.marker, name), 0o755)
		}
	}
	decoy := filepath.Join(w.root, name)
	if os.MkdirAll(decoy, 0o755) == nil {
		os.WriteFile(filepath.Join(decoy, "decoy-data.txt"), []byte("decoy"), 0o644)
	}
}

// plantLink makes <root>/<name> a symbolic link to a populated directory outside the plugin root.
func (w *world) plantLink(name, kind string) {
	target := filepath.Join(w.base, "linked-target")
	os.MkdirAll(filepath.Join(target, "sub"), 0o755)
	if kind != "empty" {
		os.WriteFile(filepath.Join(target, "notation-"+name), script(w.marker, name), 0o755)
	}
	os.WriteFile(filepath.Join(target, "data.txt"), []byte("somebody else's data"), 0o644)
	os.WriteFile(filepath.Join(target, "sub", "more.txt"), []byte("more"), 0o644)
	os.RemoveAll(filepath.Join(w.root, name))
	os.Symlink(target, filepath.Join(w.root, name))
}

func (w *world) executed() string {
	b, _ := os.ReadFile(w.marker)
	return string(b)
}

func (w *world) close() { os.RemoveAll(w.tmp) }

var (
	once  sync.Once
	chain *pki.Chain
)

func check(c Case) (skip string, key string, msg string) {
	w, skipped, err := newWorld(c)
	if err != nil {
		return "", "harness", err.Error()
	}
	if w == nil {
		return skipped, "", ""
	}
	defer w.close()
	ctx, cancel := context.WithTimeout(context.Background(), 30*time.Second)
	defer cancel()
	mgr := plugin.NewCLIManager(dir.NewSysFS(w.root))
	isSingle := single(c.Name)
	sure := plainForSure(c.Name)
	site := c.Op
	var before sandbox.Tree
	snap := func() sandbox.Tree {
		t, err := sandbox.Snapshot(w.fence)
		if err != nil {
			return sandbox.Tree{"<snapshot error>": {}}
		}
		return t
	}
	// changedOutside lists tree changes outside <root>/<name> (everything, when the name is
	// not a single component)
	changedOutside := func(after sandbox.Tree) []string {
		var out []string
		allowed := ""
		if isSingle {
			rel, _ := filepath.Rel(w.fence, filepath.Join(w.root, c.Name))
			allowed = filepath.ToSlash(rel)
		}
		for _, line := range sandbox.Diff(before, after) {
			p := line[2:]
			if allowed != "" && (p == allowed || strings.HasPrefix(p, allowed+"/")) {
				continue
			}
			if strings.HasPrefix(p, "p2/p3/p4/p5/p6/base/src") { // install may chmod its own source candidate
				continue
			}
			out = append(out, line)
		}
		return out
	}
	switch c.Op {
	case "get":
		w.plant(c.Name)
		before = snap()
		p, err := mgr.Get(ctx, c.Name)
		var merr error
		if err == nil && p != nil {
			_, merr = p.GetMetadata(ctx, &pf.GetMetadataRequest{})
		}
		ex := w.executed()
		if !isSingle {
			if ex != "" {
				return "", "C16:get:executed-outside-plugin-directory", fmt.Sprintf("name %q: a process was executed: %s", c.Name, strings.TrimSpace(ex))
			}
			if err == nil {
				return "", "C16:get:traversal-name-accepted", fmt.Sprintf("Get(%q) succeeded (resolves to %s)", c.Name, filepath.Join(w.root, c.Name, "notation-"+c.Name))
			}
		} else if sure {
			if err != nil || merr != nil || !strings.Contains(ex, "executed") {
				return "", "C16:get:positive-control-failed", fmt.Sprintf("plain name %q: Get err=%v, GetMetadata err=%v, marker=%q", c.Name, err, merr, ex)
			}
		}
		if d := changedOutside(snap()); len(d) > 0 {
			return "", "C16:get:file-system-changed", fmt.Sprintf("name %q: %v", c.Name, d)
		}
	case "uninstall":
		w.plant(c.Name)
		if c.Symlinked && sure {
			w.plantLink(c.Name, c.LinkTarget)
		}
		before = snap()
		err := mgr.Uninstall(ctx, c.Name)
		after := snap()
		if !isSingle {
			if d := sandbox.Diff(before, after); len(d) > 0 {
				return "", "C16:uninstall:deleted-outside-plugin-directory", fmt.Sprintf("Uninstall(%q) changed %d entries, e.g. %v", c.Name, len(d), d[:minInt(4, len(d))])
			}
			if err == nil {
				return "", "C16:uninstall:traversal-name-accepted", fmt.Sprintf("Uninstall(%q) returned no error", c.Name)
			}
		} else {
			if d := changedOutside(after); len(d) > 0 {
				return "", "C16:uninstall:changed-outside-named-directory", fmt.Sprintf("Uninstall(%q): %v", c.Name, d)
			}
			if sure {
				if _, serr := os.Lstat(filepath.Join(w.root, c.Name)); err != nil || serr == nil {
					return "", "C16:uninstall:positive-control-failed", fmt.Sprintf("Uninstall(%q) err=%v, directory still there=%v", c.Name, err, serr == nil)
				}
			}
		}
		if w.executed() != "" {
			return "", "C16:uninstall:executed", w.executed()
		}
	case "install-file", "install-dir":
		// the name reaches Install through the file name notation-<name>; only names that can be
		// a file name can be tried
		if strings.ContainsAny(c.Name, "/\x00") || len(c.Name) > 240 {
			return "name-cannot-be-a-file-name", "", ""
		}
		srcMarker := filepath.Join(w.tmp, "src-marker.log") // executing the user-supplied source is expected
		source := filepath.Join(w.src, "notation-"+c.Name)
		if c.Op == "install-dir" {
			os.MkdirAll(filepath.Join(w.src, "pkg"), 0o755)
			source = filepath.Join(w.src, "pkg", "notation-"+c.Name)
			os.WriteFile(filepath.Join(w.src, "pkg", "LICENSE"), []byte("license"), 0o644)
		}
		if err := os.WriteFile(source, script(srcMarker, c.Name), 0o755); err != nil {
			return "source-file-cannot-be-created", "", ""
		}
		if c.NonExecSource && c.Op == "install-dir" {
			os.Chmod(source, 0o644)
		}
		if !isSingle || !sure {
			w.plant(c.Name) // decoys where an unvalidated clean-up / copy would act
		} else if c.Symlinked {
			w.plantLink(c.Name, c.LinkTarget)
		} else if c.Neighbours {
			for _, sfx := range []string{"", ".old", ".new", ".bak", ".tmp", "~", ".orig"} {
				n := c.Name + sfx
				os.MkdirAll(filepath.Join(w.root, n), 0o755)
				os.WriteFile(filepath.Join(w.root, n, "notation-"+n), script(w.marker, n), 0o755)
				os.WriteFile(filepath.Join(w.root, n, "data.txt"), []byte("belongs to "+n), 0o644)
			}
		}
		before = snap()
		path := source
		if c.Op == "install-dir" {
			path = filepath.Dir(source)
		}
		_, _, err := mgr.Install(ctx, plugin.CLIInstallOptions{PluginPath: path, Overwrite: true})
		after := snap()
		if !isSingle {
			if d := changedOutside(after); len(d) > 0 {
				return "", "C16:" + c.Op + ":changed-outside-plugin-directory", fmt.Sprintf("Install of notation-%s changed %d entries, e.g. %v", c.Name, len(d), d[:minInt(4, len(d))])
			}
			if err == nil {
				return "", "C16:" + c.Op + ":traversal-name-accepted", fmt.Sprintf("Install of notation-%s succeeded", c.Name)
			}
			if w.executed() != "" {
				return "", "C16:" + c.Op + ":executed-outside-plugin-directory", w.executed()
			}
			if b, rerr := os.ReadFile(srcMarker); rerr == nil && len(b) > 0 {
				// the name (taken from the file name) resolves outside <root>/<name>: rejected, and no process
				// is started for it - not the source executable either
				return "", "C16:" + c.Op + ":source-executed-for-rejected-name", fmt.Sprintf("Install of notation-%s was refused (%v), but the source executable had been run: %s", c.Name, err, strings.TrimSpace(string(b)))
			}
		} else {
			if d := changedOutside(after); len(d) > 0 {
				return "", "C16:" + c.Op + ":changed-outside-named-directory", fmt.Sprintf("Install of notation-%s: %v", c.Name, d)
			}
			if sure {
				if _, serr := os.Stat(filepath.Join(w.root, c.Name, "notation-"+c.Name)); err != nil || serr != nil {
					return "", "C16:" + c.Op + ":positive-control-failed", fmt.Sprintf("Install of notation-%s: err=%v stat=%v", c.Name, err, serr)
				}
			}
		}
	case "verify-e2e":
		once.Do(func() { chain = pki.NewChain(pki.ChainOpts{Intermediates: 1, Name: "c16"}) })
		if strings.ContainsRune(c.Name, 0) || strings.TrimSpace(c.Name) == "" {
			// the envelope format / the verifier's own emptiness rule keep these away from the manager
			return "name-not-transportable-in-signature", "", ""
		}
		w.plant(c.Name)
		before = snap()
		desc := kit.Artifact("c16")
		env := envb.Build(envb.Spec{Format: envb.MTJWS, Payload: envb.PayloadFor(desc.MediaType, desc.Digest.String(), desc.Size, nil), ContentType: envb.PayloadType,
			Scheme: envb.SchemeX509, SigningTime: time.Now().Add(-time.Hour), Chain: chain.X509(), Key: chain.Leaf().Key,
			Ext: []envb.Attr{{Key: envb.AttrPlugin, Critical: true, Value: c.Name}}})
		opts := kit.Options()
		opts.OCITrustPolicy = kit.OCIDoc("p", kit.Level{Base: "strict"}.SV(""), []string{"ca:x"}, []string{"*"})
		opts.PluginManager = mgr
		// the signer is NOT trusted: the name is used before the signature is authenticated
		v, err := verifier.NewVerifierWithOptions(mocks.NewTrustStore().Put("ca", "x", pki.NewChain(pki.ChainOpts{Name: "c16 other"}).Root().Cert), opts)
		if err != nil {
			return "", "harness", err.Error()
		}
		_, verr := v.Verify(ctx, desc, env, notation.VerifierVerifyOptions{ArtifactReference: kit.Reference(desc), SignatureMediaType: envb.MTJWS})
		ex := w.executed()
		if !isSingle {
			if ex != "" {
				return "", "C16:verify-e2e:executed-outside-plugin-directory", fmt.Sprintf("verifying an untrusted signature naming plugin %q executed: %s", c.Name, strings.TrimSpace(ex))
			}
			if verr == nil {
				return "", "C16:verify-e2e:accepted", "verification succeeded"
			}
		} else if sure && !strings.Contains(ex, "executed") {
			return "", "C16:verify-e2e:positive-control-failed", fmt.Sprintf("plain plugin name %q was not executed (err=%v)", c.Name, verr)
		}
		if d := changedOutside(snap()); len(d) > 0 {
			return "", "C16:verify-e2e:file-system-changed", fmt.Sprintf("%v", d)
		}
	default:
		return "", "harness", "unknown op " + c.Op
	}
	_ = site
	return "", "", ""
}

func minInt(a, b int) int {
	if a < b {
		return a
	}
	return b
}

func drawName(rt *rapid.T) (string, string) {
	kind := rp.Pick(rt, "nameKind", "traversal", "traversal", "traversal", "traversal-into-root", "dot", "dotdot", "empty", "whitespace", "slash", "absolute", "backslash", "nul", "long", "long-then-traversal", "long-then-traversal", "plain", "plain", "dotty-single", "trailing-slash", "prefixed", "prefixed", "encoded")
	tail := rp.Pick(rt, "tail", "x", "evil", "etc/passwd", "installed", "a/b/c", "precious.txt")
	switch kind {
	case "traversal":
		return strings.Repeat("../", rapid.IntRange(1, 5).Draw(rt, "dotdots")) + tail, kind
	case "traversal-into-root":
		return "installed/../" + strings.Repeat("../", rapid.IntRange(0, 3).Draw(rt, "dotdots")) + tail, kind
	case "dot":
		return ".", kind
	case "dotdot":
		return rp.Pick(rt, "dd", "..", "../..", "../../..", "./..", "installed/.."), kind
	case "empty":
		return "", kind
	case "whitespace":
		return rp.Pick(rt, "ws", " ", "  ", "\t", " \n"), kind
	case "slash":
		return rp.Pick(rt, "sl", "a/b", "installed/x", "a//b", "./a", "a/.", "a/"), kind
	case "absolute":
		return "/" + tail, kind
	case "backslash":
		return rp.Pick(rt, "bs", `a\b`, `..\x`, `..\..\evil`, `\evil`), kind
	case "nul":
		return rp.Pick(rt, "nul", "a\x00b", "\x00", "../\x00x"), kind
	case "long":
		return strings.Repeat(rp.Pick(rt, "longUnit", "a", "ab", "../"), rp.Pick(rt, "longN", 100, 150, 300)), kind
	case "long-then-traversal":
		// a first component at / around the lengths where file systems and buffers give up (NAME_MAX = 255,
		// PATH_MAX = 4096), followed by a run that climbs out: the path is cleaned lexically before any
		// system call sees the long component, so its length protects nothing
		n := rp.Pick(rt, "longLen", 254, 255, 255, 256, 300, 1024, 4095, 4096, 5000)
		return strings.Repeat("a", n) + "/" + strings.Repeat("../", rapid.IntRange(1, 4).Draw(rt, "dotdots")) + tail, kind
	case "dotty-single":
		return rp.Pick(rt, "dotty", "...", "..a", "a..", ".hidden", "a.b"), kind
	case "trailing-slash":
		return rp.Pick(rt, "ts", "installed/", "x/", "../x/"), kind
	case "prefixed": // the executable's file name instead of the plugin name
		return "notation-" + rp.Pick(rt, "prefixed", "..", ".", "", "../x", "../../evil", "installed", "foo", " .."), kind
	case "encoded":
		return rp.Pick(rt, "encoded", "%2e%2e", "..%2fx", "%2e%2e%2f%2e%2e%2fevil", "%2Fetc", "installed%2f..%2f..", ".%2e"), kind
	}
	return rp.Pick(rt, "plain", "foo", "my-plugin", "plug_1", "X", "installed"), "plain"
}

func TestC16_Names(t *testing.T) {
	rec := stats.New(t, "C16", rule)
	rp.Check(t, 5000, 150000, func(rt *rapid.T) {
		name, kind := drawName(rt)
		c := Case{Name: name, Depth: rapid.IntRange(2, 6).Draw(rt, "depth"),
			Op: rp.Pick(rt, "op", "get", "get", "uninstall", "uninstall", "install-file", "install-dir", "verify-e2e")}
		if strings.HasPrefix(c.Op, "install") && (strings.ContainsAny(c.Name, "/\x00") || len(c.Name) > 240) {
			c.Op = rp.Pick(rt, "opInstead", "get", "uninstall", "verify-e2e") // such a name cannot reach Install through a file name
		} else if !strings.ContainsAny(c.Name, "/\x00") && len(c.Name) <= 240 && rapid.Bool().Draw(rt, "preferInstall") {
			c.Op = rp.Pick(rt, "installOp", "install-file", "install-dir")
		}
		if plainForSure(c.Name) && (c.Op == "uninstall" || strings.HasPrefix(c.Op, "install")) {
			c.Symlinked = rapid.IntRange(0, 2).Draw(rt, "symlinked") == 0
			if c.Symlinked {
				c.LinkTarget = rp.Pick(rt, "linkTarget", "", "empty")
			}
			c.Alone = c.Name != "installed" && rapid.IntRange(0, 2).Draw(rt, "alone") == 0
		}
		c.NonExecSource = c.Op == "install-dir" && rapid.Bool().Draw(rt, "nonExecSource")
		c.Neighbours = strings.HasPrefix(c.Op, "install") && plainForSure(c.Name) && !c.Symlinked && rapid.Bool().Draw(rt, "neighbours")
		skip, key, msg := check(c)
		cl := []string{"op=" + c.Op, "namekind=" + kind, fmt.Sprintf("depth=%d", c.Depth)}
		if c.Symlinked {
			cl = append(cl, "plugin-directory-is-symlink")
			if c.LinkTarget == "empty" {
				cl = append(cl, "symlink-target-without-executable")
			}
		}
		if c.Neighbours {
			cl = append(cl, "install-over-existing-with-suffixed-neighbours")
		}
		if c.NonExecSource {
			cl = append(cl, "install-dir-source-without-executable-bit")
		}
		if c.Alone {
			cl = append(cl, "no-other-plugin-in-root")
		}
		if single(c.Name) {
			cl = append(cl, "name=single-component")
			if plainForSure(c.Name) {
				cl = append(cl, "name=plain")
			}
		} else {
			cl = append(cl, "name=traversal")
		}
		if skip != "" {
			cl = []string{"skipped=" + skip, "namekind=" + kind}
		}
		rec.Case(cl, skip == "" && !plainForSure(c.Name), stats.Fingerprint(c.Name, c.Depth, c.Op, c.Symlinked, c.LinkTarget, c.Alone, c.NonExecSource, c.Neighbours), func() any { return c })
		if key == "harness" {
			rt.Fatalf("harness: %s", msg)
		}
		if key != "" {
			rec.Failf(rt, key, c, "%s", msg)
		}
	})
}

// TestC16_List: listing reports exactly the real (non-symlink) sub-directories of the root.
func TestC16_List(t *testing.T) {
	rec := stats.New(t, "C16", rule)
	rp.Check(t, 1500, 60000, func(rt *rapid.T) {
		tmp, err := os.MkdirTemp("", "c16l-")
		if err != nil {
			rt.Fatalf("harness: %v", err)
		}
		defer os.RemoveAll(tmp)
		root := filepath.Join(tmp, "plugins")
		outside := filepath.Join(tmp, "outside")
		os.MkdirAll(root, 0o755)
		os.MkdirAll(filepath.Join(outside, "realdir", "inner"), 0o755)
		os.WriteFile(filepath.Join(outside, "file.txt"), []byte("x"), 0o644)
		var want, desc []string
		n := rapid.IntRange(0, 7).Draw(rt, "entries")
		for i := 0; i < n; i++ {
			name := fmt.Sprintf("%s%d", rp.Pick(rt, "prefix", "a", "b", "z", ".h", "notation-"), i)
			kind := rp.Pick(rt, "entryKind", "dir", "dir", "dir-with-plugin", "nested-dirs", "file", "symlink-to-dir", "symlink-to-file", "dangling-symlink", "symlink-to-sibling-plugin")
			p := filepath.Join(root, name)
			switch kind {
			case "dir":
				os.Mkdir(p, 0o755)
				want = append(want, name)
			case "dir-with-plugin":
				os.Mkdir(p, 0o755)
				os.WriteFile(filepath.Join(p, "notation-"+name), []byte("#!/bin/sh\n"), 0o755)
				want = append(want, name)
			case "nested-dirs":
				os.MkdirAll(filepath.Join(p, "inner", "deeper"), 0o755)
				want = append(want, name)
			case "file":
				os.WriteFile(p, []byte("f"), 0o644)
			case "symlink-to-dir":
				os.Symlink(filepath.Join(outside, "realdir"), p)
			case "symlink-to-file":
				os.Symlink(filepath.Join(outside, "file.txt"), p)
			case "dangling-symlink":
				os.Symlink(filepath.Join(outside, "missing"), p)
			case "symlink-to-sibling-plugin":
				os.Mkdir(filepath.Join(root, "real"+name), 0o755)
				os.Symlink(filepath.Join(root, "real"+name), p)
				want = append(want, "real"+name)
			}
			desc = append(desc, kind+":"+name)
		}
		// how the caller spells the plugin root: the directory itself, a symbolic link to it (a
		// configuration directory that lives elsewhere), or an unclean spelling of its path
		rootVia := rp.Pick(rt, "rootVia", "direct", "direct", "symlink", "symlink", "trailing-slash", "dotdot-spelling", "symlink-chain")
		given := root
		switch rootVia {
		case "symlink":
			given = filepath.Join(tmp, "plugins-link")
			os.Symlink(root, given)
		case "symlink-chain":
			os.Symlink("plugins", filepath.Join(tmp, "plugins-link1"))
			given = filepath.Join(tmp, "plugins-link2")
			os.Symlink("plugins-link1", given)
		case "trailing-slash":
			given = root + string(filepath.Separator)
		case "dotdot-spelling":
			given = tmp + "/outside/../plugins/."
		}
		before, _ := sandbox.Snapshot(tmp)
		listMgr := plugin.NewCLIManager(dir.NewSysFS(given))
		gotRaw, err := listMgr.List(context.Background())
		after, _ := sandbox.Snapshot(tmp)
		sort.Strings(want)
		got := append([]string{}, gotRaw...)
		sort.Strings(got)
		desc = append([]string{"root-via:" + rootVia}, desc...)
		cl := []string{"op=list", fmt.Sprintf("list-entries=%d", n), "list-root-via=" + rootVia}
		for _, d := range desc[1:] {
			cl = append(cl, "entry="+strings.SplitN(d, ":", 2)[0])
		}
		rec.Case(cl, n >= 2, stats.Fingerprint("list", strings.Join(desc, ",")), func() any { return desc })
		if err != nil {
			rec.Failf(rt, "C16:list:error", desc, "List failed on %v: %v", desc, err)
			return
		}
		if strings.Join(got, "\x00") != strings.Join(want, "\x00") {
			rec.Failf(rt, "C16:list:names", desc, "List = %q, real sub-directories = %q (entries %v)", got, want, desc)
		}
		if d := sandbox.Diff(before, after); len(d) > 0 {
			rec.Failf(rt, "C16:list:file-system-changed", desc, "%v", d)
		}
		// "Listing reports exactly the real sub-directories of the plugin root" - of the root as it is when
		// it is listed: the SAME manager lists again after the caller has written into the first answer
		// and after the directory has changed behind the manager's back (another process installed,
		// removed, or replaced a plugin directory by a link)
		if rapid.Bool().Draw(rt, "listAgain") {
			for i := range gotRaw {
				gotRaw[i] = "../../../etc"
			}
			want2 := append([]string{}, want...)
			var changes []string
			if len(want2) > 0 && rapid.Bool().Draw(rt, "removeOne") {
				gone := want2[0]
				want2 = want2[1:]
				os.RemoveAll(filepath.Join(root, gone))
				changes = append(changes, "removed:"+gone)
				if rapid.Bool().Draw(rt, "replaceByLink") {
					os.Symlink(filepath.Join(outside, "realdir"), filepath.Join(root, gone))
					changes = append(changes, "replaced-by-link:"+gone)
				}
			}
			if rapid.Bool().Draw(rt, "addOne") {
				os.Mkdir(filepath.Join(root, "late-arrival"), 0o755)
				want2 = append(want2, "late-arrival")
				changes = append(changes, "added:late-arrival")
			}
			sort.Strings(want2)
			got2, err := listMgr.List(context.Background())
			sort.Strings(got2)
			rec.Case([]string{"op=list-again", fmt.Sprintf("list-again-changes=%d", len(changes))}, true, stats.Fingerprint("list-again", strings.Join(desc, ","), strings.Join(changes, ",")), func() any { return append(desc, changes...) })
			if err != nil {
				rec.Failf(rt, "C16:list-again:error", desc, "second List failed after %v: %v", changes, err)
				return
			}
			if strings.Join(got2, "\x00") != strings.Join(want2, "\x00") {
				rec.Failf(rt, "C16:list-again:names", append(desc, changes...), "second List on the same manager = %q, real sub-directories now = %q (first answer overwritten by the caller; changes since: %v)", got2, want2, changes)
			}
		}
	})
}
