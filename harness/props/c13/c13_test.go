// C13 — trust stores load only valid certificates from real files of the named store.
//
// Every case is a real directory tree under a fresh temporary config root. The harness keeps a
// virtual description of the tree (what every node is and, for files, which pool certificates it
// holds in which encoding); the model decides from that description alone — it never parses a
// file and never calls notation-go (DESIGN.md, section C13).
//
// Cells in which the statement is silent (either outcome is accepted, but "all or nothing" and the
// exact result set are still demanded):
//   - a self-signed certificate that is not a CA in a tsa store ("self-signed roots": it is
//     self-signed and self-issued, but not a CA);
//   - a PEM file that holds a parseable certificate block AND a non-certificate block, or text
//     before / after the PEM armour ("holding one or more parseable certificates" does not say
//     whether anything else may be in the file);
//   - the dot-only names "." and ".." — they consist of file-name characters only (the documented
//     format [a-zA-Z0-9_.-]+), but whether they are "plain file names" is a matter of reading. They
//     resolve to the type directory / the x509 directory; the model applies the store rule to that
//     directory: where the rule says "fail" a failure is demanded, where it says "succeed" both
//     outcomes are accepted (see dotOnlyMustFail).
//
// Finding keys: C13:panic, C13:accepted:<first failing clause> (type-invalid, name-nonplain,
// store-symlink|file|absent, empty-store, entry-subdir|symlink|dangling|empty|garbage|pem-noncert|leaf,
// tsa-nonroot-inter|cross), C13:accepted:empty-result, C13:partial-result-with-error,
// C13:rejected-valid-store:type=<t>, C13:result-set:extra|missing|repeated, C13:nil-certificate-in-result,
// C13:error-type:untyped|store-level|entry-level (the documented meaning of TrustStoreError /
// CertificateError; an empty store may report either).
package c13

import (
	"bytes"
	"context"
	"crypto/x509"
	"crypto/x509/pkix"
	"encoding/hex"
	"encoding/pem"
	"errors"
	"fmt"
	"os"
	"path"
	"sort"
	"path/filepath"
	"strings"
	"sync"
	"sync/atomic"
	"time"

	"github.com/notaryproject/notation-go/dir"
	"github.com/notaryproject/notation-go/verifier/truststore"

	"verifharness/internal/pki"
	"verifharness/internal/stats"
)

const rule = "case = (requested type, requested name, full tree listing: node kind, entry encoding, pool certificate ids, link targets); non-trivial = >=2 entries in the store with at least one bad entry, or a non-plain name, or a store that is not a real directory; distinct by the canonical listing"

// dotOnlyMustFail selects the strict reading of "plain file-name store name" for "." and "..".
// With false (the statement is taken to be silent) a success is accepted when the directory the
// name resolves to satisfies the store rule, and then the result must be exactly that directory's
// certificates.
const dotOnlyMustFail = false

const x509Root = "truststore/x509"

// ---------------------------------------------------------------------------------------------
// certificate pool (minted once per process)

type pcert struct {
	ID  string // e.g. "root0"
	Cat string // root | inter | cross | leaf | ssleaf
	X   *x509.Certificate
}

type certPool struct {
	cat    map[string][]*pcert
	decoys []*pcert // self-signed root CAs that are never placed into the store under test
	byHex  map[string]string
	keyPEM []byte
	err    error
}

var (
	poolOnce sync.Once
	thePool  certPool
)

func pool() *certPool {
	poolOnce.Do(mintPool)
	return &thePool
}

func mintPool() {
	p := &thePool
	p.cat = map[string][]*pcert{}
	p.byHex = map[string]string{}
	now := time.Now()
	nb, na := now.Add(-24*time.Hour), now.Add(24*time.Hour)
	subj := func(cn string) pkix.Name {
		return pkix.Name{CommonName: "c13 " + cn, Organization: []string{"verif c13"}, Country: []string{"US"}, Province: []string{"WA"}}
	}
	add := func(cat string, c *pki.Cert) *pki.Cert {
		pc := &pcert{ID: fmt.Sprint(cat, len(p.cat[cat])), Cat: cat, X: c.Cert}
		p.cat[cat] = append(p.cat[cat], pc)
		p.byHex[hex.EncodeToString(c.Cert.Raw)] = pc.ID
		return c
	}
	ca := func(cn string, pathLen int) pki.Spec {
		return pki.Spec{Subject: subj(cn), NotBefore: nb, NotAfter: na, IsCA: true, PathLen: pathLen, CRLSign: true}
	}
	r0 := add("root", pki.Mint(ca("root0", 2), nil))
	r1 := add("root", pki.Mint(ca("root1", -1), nil))
	sp := ca("root2", 1)
	sp.Key = pki.Key("RSA-2048", 0)
	r2 := add("root", pki.Mint(sp, nil))
	sp = ca("root3", -1) // expired: validity is not part of the statement, it is a CA
	sp.NotBefore, sp.NotAfter = now.Add(-72*time.Hour), now.Add(-48*time.Hour)
	add("root", pki.Mint(sp, nil))
	sp = ca("root4", 0)
	sp.Key = pki.Key("EC-384", 0)
	add("root", pki.Mint(sp, nil))

	// root0 re-issued after a key roll-over: same subject, same serial number, another key - a different
	// certificate that a store must keep next to the old one
	sp = ca("root0", 2)
	sp.Serial = r0.Cert.SerialNumber
	add("root", pki.Mint(sp, nil))

	i0 := add("inter", pki.Mint(ca("inter0", 1), r0))
	i1 := add("inter", pki.Mint(ca("inter1", 0), i0))
	i2 := add("inter", pki.Mint(ca("inter2", -1), r1))

	leaf := func(cn string) pki.Spec {
		return pki.Spec{Subject: subj(cn), NotBefore: nb, NotAfter: na, EKU: []x509.ExtKeyUsage{x509.ExtKeyUsageCodeSigning}}
	}
	add("leaf", pki.Mint(leaf("leaf0"), i1))
	add("leaf", pki.Mint(leaf("leaf1"), i2))
	add("leaf", pki.Mint(leaf("leaf2"), r2))
	// a non-CA certificate whose subject NAME equals its issuer's name (root1) but which is signed
	// by root1's key: self-issued by name only, neither a CA nor self-signed
	add("leaf", pki.Mint(leaf("root1"), r1))
	// a CA-issued leaf whose signature algorithm is one the platform does not know (the OID of
	// ecdsa-with-SHA256 with its last arc changed, inside and outside the signed part): nobody can
	// establish that it is self-signed, and it is not a CA
	if odd := unknownSigAlg(pki.Mint(leaf("leaf-unknown-sigalg"), i2)); odd != nil {
		add("leaf", odd)
	}
	// CA-issued certificates without any basic-constraints extension - one of them with the
	// keyCertSign key usage: without the extension saying CA=true a certificate is not a CA
	sp = leaf("leaf-no-basic-constraints")
	sp.NoBasicConstraints = true
	add("leaf", pki.Mint(sp, i2))
	sp = leaf("leaf-certsign-no-basic-constraints")
	sp.NoBasicConstraints, sp.KeyUsage, sp.EKU = true, x509.KeyUsageCertSign|x509.KeyUsageDigitalSignature, nil
	add("leaf", pki.Mint(sp, r1))
	add("ssleaf", pki.Mint(leaf("ssleaf0"), nil))
	sp = leaf("ssleaf1")
	sp.EKU = nil
	add("ssleaf", pki.Mint(sp, nil))

	// cross: a CA whose subject equals its issuer (root1's name) but which is signed by root1's
	// key, not by its own: self-issued by name, not self-signed.
	add("cross", pki.Mint(ca("root1", 0), r1))

	for i := 0; i < 6; i++ {
		c := pki.Mint(ca(fmt.Sprint("decoy", i), -1), nil)
		pc := &pcert{ID: fmt.Sprint("decoy", i), Cat: "root", X: c.Cert}
		p.decoys = append(p.decoys, pc)
		p.byHex[hex.EncodeToString(c.Cert.Raw)] = pc.ID
	}
	p.keyPEM = pki.KeyPEM(pki.Key("EC-256", 0))

	// harness self-check of the categories (standard library only)
	selfSigned := func(c *x509.Certificate) bool {
		return c.CheckSignature(c.SignatureAlgorithm, c.RawTBSCertificate, c.Signature) == nil
	}
	for cat, list := range p.cat {
		for _, pc := range list {
			c := pc.X
			ok := false
			switch cat {
			case "root":
				ok = c.IsCA && selfSigned(c) && string(c.RawSubject) == string(c.RawIssuer)
			case "inter":
				ok = c.IsCA && !selfSigned(c) && string(c.RawSubject) != string(c.RawIssuer)
			case "cross":
				ok = c.IsCA && !selfSigned(c) && string(c.RawSubject) == string(c.RawIssuer)
			case "leaf":
				ok = !c.IsCA && !selfSigned(c)
			case "ssleaf":
				ok = !c.IsCA && selfSigned(c)
			}
			if !ok {
				p.err = fmt.Errorf("pool certificate %s does not have the properties of category %s", pc.ID, cat)
			}
		}
	}
	for _, pc := range p.decoys {
		if !pc.X.IsCA || !selfSigned(pc.X) {
			p.err = fmt.Errorf("decoy %s is not a self-signed CA", pc.ID)
		}
	}
}

// unknownSigAlg returns c with its signature algorithm identifier rewritten to an unknown OID of the
// same length, or nil when c was not signed with ecdsa-with-SHA256 or no longer parses.
func unknownSigAlg(c *pki.Cert) *pki.Cert {
	oid := []byte{0x06, 0x08, 0x2A, 0x86, 0x48, 0xCE, 0x3D, 0x04, 0x03, 0x02}
	bogus := []byte{0x06, 0x08, 0x2A, 0x86, 0x48, 0xCE, 0x3D, 0x04, 0x03, 0x7E}
	if bytes.Count(c.Cert.Raw, oid) != 2 {
		return nil
	}
	parsed, err := x509.ParseCertificate(bytes.ReplaceAll(c.Cert.Raw, oid, bogus))
	if err != nil || parsed.SignatureAlgorithm != x509.UnknownSignatureAlgorithm {
		return nil
	}
	return &pki.Cert{Cert: parsed, Key: c.Key}
}

func pemOf(cs []*pcert) []byte {
	var b []byte
	for _, c := range cs {
		b = append(b, pem.EncodeToMemory(&pem.Block{Type: "CERTIFICATE", Bytes: c.X.Raw})...)
	}
	return b
}

func derOf(cs []*pcert) []byte {
	var b []byte
	for _, c := range cs {
		b = append(b, c.X.Raw...)
	}
	return b
}

// ---------------------------------------------------------------------------------------------
// virtual tree

type node struct {
	Path   string   `json:"path"`             // relative to the config root, slash separated, clean
	Kind   string   `json:"kind"`             // dir | file | symlink
	What   string   `json:"what,omitempty"`   // files: encoding / content kind; symlinks: symlink | dangling
	Var    int      `json:"var,omitempty"`    // variant of What
	Certs  []string `json:"certs,omitempty"`  // files: pool ids of the parseable certificates, in file order
	Target string   `json:"target,omitempty"` // symlinks: target as written, "@BASE" stands for the config root

	certs []*pcert
	under bool // the file has a certificate and something else around it (statement silent)
	data  []byte
}

type tree struct{ m map[string]*node }

func newTree() *tree { return &tree{m: map[string]*node{}} }

// mkdirAll adds p and its ancestors as directories; false if something on the way is not a directory.
func (t *tree) mkdirAll(p string) bool {
	if p == "." || p == "" {
		return true
	}
	if n := t.m[p]; n != nil {
		return n.Kind == "dir"
	}
	if !t.mkdirAll(path.Dir(p)) {
		return false
	}
	t.m[p] = &node{Path: p, Kind: "dir"}
	return true
}

// put adds a node; false (nothing added) if the path is taken or its parent cannot be a directory.
func (t *tree) put(n *node) bool {
	if n.Path == "" || n.Path == "." || t.m[n.Path] != nil || !t.mkdirAll(path.Dir(n.Path)) {
		return false
	}
	t.m[n.Path] = n
	return true
}

func (t *tree) sorted() []*node {
	out := make([]*node, 0, len(t.m))
	for _, n := range t.m {
		out = append(out, n)
	}
	sort.Slice(out, func(i, j int) bool { return out[i].Path < out[j].Path })
	return out
}

func children(nodes []*node, p string) []*node {
	var out []*node
	for _, n := range nodes {
		if strings.HasPrefix(n.Path, p+"/") && !strings.Contains(n.Path[len(p)+1:], "/") {
			out = append(out, n)
		}
	}
	return out
}

func find(nodes []*node, p string) *node {
	for _, n := range nodes {
		if n.Path == p {
			return n
		}
	}
	return nil
}

func materialize(base string, nodes []*node) error {
	for _, n := range nodes { // sorted: a parent is a proper prefix of its children and sorts first
		full := base + "/" + n.Path
		var err error
		switch n.Kind {
		case "dir":
			err = os.Mkdir(full, 0o755)
		case "file":
			err = os.WriteFile(full, n.data, 0o644)
		case "symlink":
			err = os.Symlink(strings.ReplaceAll(n.Target, "@BASE", base), full)
		default:
			err = fmt.Errorf("unknown node kind %q", n.Kind)
		}
		if err != nil {
			return err
		}
	}
	return nil
}

// relTo returns the relative path from directory fromDir to path to (both relative to the root).
func relTo(fromDir, to string) string {
	if fromDir == "." || fromDir == "" {
		return to
	}
	return strings.Repeat("../", strings.Count(fromDir, "/")+1) + to
}

// ---------------------------------------------------------------------------------------------
// entries

// espec describes one directory entry to create.
type espec struct {
	What  string // pem-single pem-multi der-single der-concat empty garbage pem-noncert pem-text subdir symlink dangling
	Var   int
	Certs []*pcert
}

func certFile(p, what string, v int, cs []*pcert, data []byte, under bool) *node {
	n := &node{Path: p, Kind: "file", What: what, Var: v, certs: cs, data: data, under: under}
	for _, c := range cs {
		n.Certs = append(n.Certs, c.ID)
	}
	return n
}

// addEntry creates entry e named fname in directory d. seq makes helper paths unique.
func addEntry(t *tree, d, fname string, e espec, seq int) bool {
	pl := pool()
	p := d + "/" + fname
	switch e.What {
	case "pem-single", "pem-multi":
		return t.put(certFile(p, e.What, 0, e.Certs, pemOf(e.Certs), false))
	case "der-single", "der-concat":
		return t.put(certFile(p, e.What, 0, e.Certs, derOf(e.Certs), false))
	case "empty":
		return t.put(certFile(p, "empty", 0, nil, nil, false))
	case "garbage":
		var data []byte
		switch e.Var % 6 {
		case 0:
			data = []byte("this is not a certificate\n")
		case 1:
			raw := pl.cat["root"][0].X.Raw
			data = append([]byte{}, raw[:len(raw)/2]...) // truncated DER
		case 2:
			data = []byte("\n \n")
		case 3:
			data = []byte{0xff, 0x00, 0x30, 0x82, 0x01}
		case 4:
			data = []byte("-----BEGIN CERTIFICATE-----\n!!!! not base64 !!!!\n-----END CERTIFICATE-----\n")
		case 5:
			data = pem.EncodeToMemory(&pem.Block{Type: "CERTIFICATE", Bytes: []byte("junk inside a certificate block")})
		}
		return t.put(certFile(p, "garbage", e.Var%6, nil, data, false))
	case "pem-noncert":
		switch e.Var % 3 {
		case 0: // only a private key block: no certificate at all
			return t.put(certFile(p, "pem-noncert", 0, nil, pl.keyPEM, false))
		case 1: // certificate, then key
			return t.put(certFile(p, "pem-noncert", 1, e.Certs, append(pemOf(e.Certs), pl.keyPEM...), true))
		default: // key, then certificate
			return t.put(certFile(p, "pem-noncert", 2, e.Certs, append(append([]byte{}, pl.keyPEM...), pemOf(e.Certs)...), true))
		}
	case "pem-text":
		if e.Var%2 == 0 {
			return t.put(certFile(p, "pem-text", 0, e.Certs, append([]byte("subject=CN=some root\nissuer=the same\n"), pemOf(e.Certs)...), true))
		}
		return t.put(certFile(p, "pem-text", 1, e.Certs, append(pemOf(e.Certs), []byte("# trailing comment\n")...), true))
	case "subdir":
		if !t.put(&node{Path: p, Kind: "dir", What: "subdir", Var: e.Var % 2}) {
			return false
		}
		if e.Var%2 == 1 {
			dc := []*pcert{pl.decoys[seq%len(pl.decoys)]}
			t.put(certFile(p+"/inner.pem", "pem-single", 0, dc, pemOf(dc), false))
		}
		return true
	case "symlink":
		cs := []*pcert{pl.cat["root"][seq%2]}
		tp := fmt.Sprintf("targets/t%d.pem", seq)
		if e.Var%3 == 2 { // link to a directory that holds a valid certificate
			tp = fmt.Sprintf("targets/d%d", seq)
			if !t.put(certFile(tp+"/root.pem", "pem-single", 0, cs, pemOf(cs), false)) {
				return false
			}
		} else if !t.put(certFile(tp, "pem-single", 0, cs, pemOf(cs), false)) {
			return false
		}
		target := "@BASE/" + tp
		if e.Var%3 == 1 {
			target = relTo(d, tp)
		}
		return t.put(&node{Path: p, Kind: "symlink", What: "symlink", Var: e.Var % 3, Target: target})
	case "dangling":
		target := fmt.Sprintf("missing-%d.pem", seq)
		if e.Var%2 == 1 {
			target = fmt.Sprintf("@BASE/missing/m%d.pem", seq)
		}
		return t.put(&node{Path: p, Kind: "symlink", What: "dangling", Var: e.Var % 2, Target: target})
	}
	panic("harness: unknown entry kind " + e.What)
}

// ---------------------------------------------------------------------------------------------
// case and model

// Case is one C13 scenario: the request and the complete tree it runs against.
type Case struct {
	Type     string  `json:"type"`
	Name     string  `json:"name"`
	NameKind string  `json:"name_kind"`
	Resolved string  `json:"resolved,omitempty"` // where type/name lexically point (empty: cannot exist on disk)
	Grid     int     `json:"grid"`               // index in the enumeration test, -1 for generated cases
	Nodes    []*node `json:"tree"`
	Siblings int     `json:"siblings"`
	SameType int     `json:"siblings_same_type"`
	Strays   int     `json:"strays"`
	Reuse    bool    `json:"reuse"` // load once with other file contents on the same store value first
	// CtxPolls > 0: the call gets a context that reports "deadline exceeded" from its CtxPolls-th
	// poll (Err or Done) on - it ends while the store is being read. Failing is then legal; a
	// success must still be the complete set
	CtxPolls int `json:"ctxPolls,omitempty"`
	// Root: name of the configuration root directory itself ("" = a plain temporary directory). A
	// root whose name holds pattern characters has a neighbour that the name, read as a pattern,
	// designates as well; the neighbour holds a valid root certificate at the store's place:
	// "nothing from anywhere else"
	Root string `json:"root,omitempty"`
}

// rootNeighbour: directory names with pattern characters -> a neighbour the pattern also matches
var rootNeighbour = map[string]string{"cfg[1]": "cfg1", "notation*": "notation-staging", "c?g": "cfg", "cf\\g": "cfg", "[c]fg": "cfg"}

// pollCtx is a context whose deadline passes after a number of polls.
type pollCtx struct {
	context.Context
	left   *int32
	closed chan struct{}
}

func newPollCtx(polls int) *pollCtx {
	n := int32(polls)
	c := &pollCtx{Context: context.Background(), left: &n, closed: make(chan struct{})}
	close(c.closed)
	return c
}

func (p *pollCtx) expired() bool { return atomic.AddInt32(p.left, -1) <= 0 }
func (p *pollCtx) over() bool    { return atomic.LoadInt32(p.left) <= 0 }
func (p *pollCtx) Err() error {
	if p.expired() {
		return context.DeadlineExceeded
	}
	return nil
}
func (p *pollCtx) Done() <-chan struct{} {
	if p.expired() {
		return p.closed
	}
	return nil
}
func (p *pollCtx) Deadline() (time.Time, bool) { return time.Now().Add(time.Millisecond), true }


func validType(t string) bool { return t == "ca" || t == "signingAuthority" || t == "tsa" }

// nameAlphabet: one or more of [a-zA-Z0-9_.-] (the documented format of a store name).
func nameAlphabet(s string) bool {
	if s == "" {
		return false
	}
	for i := 0; i < len(s); i++ {
		c := s[i]
		if !(c >= 'a' && c <= 'z' || c >= 'A' && c <= 'Z' || c >= '0' && c <= '9' || c == '_' || c == '.' || c == '-') {
			return false
		}
	}
	return true
}

func dotOnly(s string) bool { return s == "." || s == ".." }

// materializable reports whether every component of type/name can be a directory entry.
func materializable(typ, name string) bool {
	if strings.ContainsRune(typ, 0) || strings.ContainsRune(name, 0) {
		return false
	}
	for _, comp := range strings.Split(typ+"/"+name, "/") {
		if len(comp) > 255 {
			return false
		}
	}
	return true
}

// resolve is where the layout truststore/x509/<type>/<name> lexically points.
func resolve(typ, name string) string { return path.Join(x509Root, typ, name) }

// entryVerdict: 0 good, 1 statement silent, 2 bad — for an entry of a store of type typ.
func entryVerdict(n *node, typ string) (int, string) {
	switch n.Kind {
	case "dir":
		return 2, "entry-subdir"
	case "symlink":
		return 2, "entry-" + n.What
	}
	if len(n.certs) == 0 {
		return 2, "entry-" + n.What // empty, garbage, pem-noncert without any certificate
	}
	v, why := 0, ""
	for _, c := range n.certs {
		switch {
		case c.Cat == "leaf":
			return 2, "entry-leaf"
		case typ == "tsa" && (c.Cat == "inter" || c.Cat == "cross"):
			return 2, "tsa-nonroot-" + c.Cat
		case typ == "tsa" && c.Cat == "ssleaf":
			v, why = 1, "silent:tsa-selfsigned-nonca"
		}
	}
	if v == 0 && n.under {
		v, why = 1, "silent:"+n.What
	}
	return v, why
}

type verdict struct {
	Expect  string // succeed | fail | either
	Reason  string // first failing clause, or why the statement is silent
	Level   string // store | empty | entry : which documented error type a failure has ("" = any of the two)
	Store   string // what is at the resolved path: dir | symlink | file | absent
	Want    []string
	Entries []*node
	Bad     int
	Good    int
	BadLate bool // a bad entry sorts after a good one
}

func model(c *Case) verdict {
	v := verdict{Expect: "fail", Level: "store", Store: "absent"}
	var at *node
	r := c.Resolved
	if r != "" {
		at = find(c.Nodes, r)
	}
	if at != nil {
		v.Store = at.Kind
		if at.Kind == "dir" {
			v.Entries = children(c.Nodes, r)
		}
	}
	evalType := c.Type
	if !validType(evalType) {
		evalType = "ca"
	}
	firstBad, silent := "", ""
	seenGood := false
	for _, e := range v.Entries {
		ev, why := entryVerdict(e, evalType)
		switch ev {
		case 2:
			v.Bad++
			if firstBad == "" {
				firstBad = why
			}
			if seenGood {
				v.BadLate = true
			}
		case 1:
			if silent == "" {
				silent = why
			}
			v.Good++
			seenGood = true
		default:
			v.Good++
			seenGood = true
		}
		for _, pc := range e.certs {
			v.Want = append(v.Want, hex.EncodeToString(pc.X.Raw))
		}
	}
	sort.Strings(v.Want)
	switch {
	case !validType(c.Type):
		v.Reason = "type-invalid"
	case !nameAlphabet(c.Name):
		v.Reason = "name-nonplain"
	case dotOnly(c.Name) && dotOnlyMustFail:
		v.Reason = "name-dotonly"
	case v.Store != "dir":
		v.Reason = "store-" + v.Store
	case len(v.Entries) == 0:
		v.Reason, v.Level = "empty-store", "empty"
	case firstBad != "":
		v.Reason, v.Level = firstBad, "entry"
	case dotOnly(c.Name):
		v.Expect, v.Reason, v.Level = "either", "silent:name-dotonly", ""
	case silent != "":
		v.Expect, v.Reason, v.Level = "either", silent, "entry"
	default:
		v.Expect, v.Level = "succeed", ""
	}
	if dotOnly(c.Name) && v.Level != "store" {
		v.Level = "" // a reading that rejects dot-only names up front would report a store-level error
	}
	return v
}

func isTSErr(err error) bool {
	var a truststore.TrustStoreError
	var b *truststore.TrustStoreError
	return errors.As(err, &a) || errors.As(err, &b)
}

func isCertErr(err error) bool {
	var a truststore.CertificateError
	var b *truststore.CertificateError
	return errors.As(err, &a) || errors.As(err, &b)
}

func call(base, typ, name string) (certs []*x509.Certificate, err error, panicked any) {
	return callOn(truststore.NewX509TrustStore(dir.NewSysFS(base)), typ, name)
}

func callOn(ts truststore.X509TrustStore, typ, name string) (certs []*x509.Certificate, err error, panicked any) {
	return callCtx(context.Background(), ts, typ, name)
}

func callCtx(ctx context.Context, ts truststore.X509TrustStore, typ, name string) (certs []*x509.Certificate, err error, panicked any) {
	defer func() {
		if r := recover(); r != nil {
			panicked = r
		}
	}()
	certs, err = ts.GetCertificates(ctx, truststore.Type(typ), name)
	return
}

func idsOf(p *certPool, hexes []string) []string {
	out := make([]string, len(hexes))
	for i, h := range hexes {
		if id, ok := p.byHex[h]; ok {
			out[i] = id
		} else {
			out[i] = "unknown:" + h[:16]
		}
	}
	sort.Strings(out)
	return out
}

// check materializes the case, calls GetCertificates and compares with the model.
// It returns a finding key ("" = fine; prefix "harness:" = infrastructure) and whether the call succeeded.
func check(c *Case, v verdict) (key, msg string, succeeded bool) {
	p := pool()
	base, err := os.MkdirTemp("", "c13-")
	if err != nil {
		return "harness:mkdtemp", err.Error(), false
	}
	defer os.RemoveAll(base)
	if c.Root != "" {
		outer := base
		base = filepath.Join(outer, c.Root)
		if err := os.MkdirAll(base, 0o755); err != nil {
			return "harness:mkroot", err.Error(), false
		}
		if c.Type != "" && c.Name != "" && !strings.ContainsAny(c.Type+c.Name, "/\\") && c.Type != "." && c.Type != ".." && c.Name != "." && c.Name != ".." && len(c.Name) < 200 && len(c.Type) < 200 {
			d := filepath.Join(outer, rootNeighbour[c.Root], "truststore", "x509", c.Type, c.Name)
			if err := os.MkdirAll(d, 0o755); err == nil {
				os.WriteFile(filepath.Join(d, "neighbour.pem"), pemOf(p.decoys[len(p.decoys)-1:]), 0o644)
			}
		}
	}
	var certs []*x509.Certificate
	var pan any
	var ctx context.Context = context.Background()
	var pc *pollCtx
	if c.CtxPolls > 0 {
		pc = newPollCtx(c.CtxPolls)
		ctx = pc
	}
	if c.Reuse {
		// history on ONE store value: first every file holds a (valid) decoy root, the store is
		// loaded, then the files are overwritten in place with the case's real content (same
		// names, same inodes, directory untouched) and the store is loaded again; the judged
		// result must only depend on what the files hold now
		prior := make([]*node, len(c.Nodes))
		decoy := pemOf(p.decoys[:1])
		for i, n := range c.Nodes {
			cp := *n
			if n.Kind == "file" {
				cp.data = decoy
			}
			prior[i] = &cp
		}
		if err := materialize(base, prior); err != nil {
			return "harness:materialize", err.Error(), false
		}
		ts := truststore.NewX509TrustStore(dir.NewSysFS(base))
		callOn(ts, c.Type, c.Name)
		for _, n := range c.Nodes {
			if n.Kind == "file" {
				if err := os.WriteFile(base+"/"+n.Path, n.data, 0o644); err != nil {
					return "harness:rewrite", err.Error(), false
				}
			}
		}
		certs, err, pan = callCtx(ctx, ts, c.Type, c.Name)
	} else {
		if err := materialize(base, c.Nodes); err != nil {
			return "harness:materialize", err.Error(), false
		}
		certs, err, pan = callCtx(ctx, truststore.NewX509TrustStore(dir.NewSysFS(base)), c.Type, c.Name)
	}
	if pan != nil {
		return "C13:panic", fmt.Sprintf("GetCertificates panicked: %v", pan), false
	}
	succeeded = err == nil
	var got []string
	for _, x := range certs {
		if x == nil {
			return "C13:nil-certificate-in-result", "the result holds a nil certificate", succeeded
		}
		got = append(got, hex.EncodeToString(x.Raw))
	}
	sort.Strings(got)
	if err != nil {
		if len(certs) != 0 {
			return "C13:partial-result-with-error", fmt.Sprintf("error %q together with %d certificates %v", err, len(certs), idsOf(p, got)), false
		}
		if pc != nil && pc.over() {
			return "", "", false // the context ended during the call: failing (with whatever error) is legal
		}
		if v.Expect == "succeed" {
			return "C13:rejected-valid-store:type=" + c.Type, fmt.Sprintf("model: store is valid (%d files, certificates %v), GetCertificates failed: %v", len(v.Entries), idsOf(p, v.Want), err), false
		}
		ts, ce := isTSErr(err), isCertErr(err)
		switch {
		case !ts && !ce:
			return "C13:error-type:untyped", fmt.Sprintf("failure (%s) reported as %T, neither TrustStoreError nor CertificateError: %v", v.Reason, err, err), false
		case v.Level == "store" && !ts:
			return "C13:error-type:store-level", fmt.Sprintf("the store cannot be accessed (%s) but the error is %T: %v", v.Reason, err, err), false
		case v.Level == "entry" && !ce:
			return "C13:error-type:entry-level", fmt.Sprintf("a certificate entry is bad (%s) but the error is %T: %v", v.Reason, err, err), false
		}
		return "", "", false
	}
	// success
	if v.Expect == "fail" {
		return "C13:accepted:" + v.Reason, fmt.Sprintf("model: must fail (%s), GetCertificates returned %d certificates %v", v.Reason, len(certs), idsOf(p, got)), true
	}
	if len(certs) == 0 {
		return "C13:accepted:empty-result", "success with an empty certificate list", true
	}
	// exact result: every certificate of the store's files and nothing else. Where the same
	// certificate is stored more than once the statement does not say whether it is repeated:
	// between once and as often as stored.
	wantN, gotN := map[string]int{}, map[string]int{}
	for _, h := range v.Want {
		wantN[h]++
	}
	for _, h := range got {
		gotN[h]++
	}
	for _, h := range got {
		if gotN[h] > wantN[h] {
			if wantN[h] == 0 {
				return "C13:result-set:extra", fmt.Sprintf("returned certificate %v is in no file of the store (store holds %v)", idsOf(p, []string{h}), idsOf(p, v.Want)), true
			}
			return "C13:result-set:repeated", fmt.Sprintf("certificate %v returned %d times, stored %d times", idsOf(p, []string{h}), gotN[h], wantN[h]), true
		}
	}
	for _, h := range v.Want {
		if gotN[h] == 0 {
			return "C13:result-set:missing", fmt.Sprintf("certificate %v of the store is not returned (returned %v)", idsOf(p, []string{h}), idsOf(p, got)), true
		}
	}
	return "", "", true
}

// ---------------------------------------------------------------------------------------------
// statistics

func abbr(s string) string {
	if len(s) <= 72 {
		return s
	}
	return fmt.Sprintf("%s...(%d bytes)", s[:24], len(s))
}

// view renders the case for evidence / failure reports (long names abbreviated).
func (c *Case) view() any {
	cp := *c
	cp.Name = abbr(c.Name)
	cp.Resolved = abbr(c.Resolved)
	cp.Nodes = make([]*node, len(c.Nodes))
	long := ""
	if len(c.Name) > 72 {
		long = c.Name
	}
	for i, n := range c.Nodes {
		m := *n
		if long != "" {
			m.Path = strings.ReplaceAll(m.Path, long, abbr(long))
			m.Target = strings.ReplaceAll(m.Target, long, abbr(long))
		}
		cp.Nodes[i] = &m
	}
	return &cp
}

func (c *Case) fingerprint() uint64 {
	parts := []any{c.Type, c.Name, c.Reuse, c.CtxPolls, c.Root}
	for _, n := range c.Nodes {
		parts = append(parts, n.Path, n.Kind, n.What, n.Var, strings.Join(n.Certs, ","), n.Target)
	}
	return stats.Fingerprint(parts...)
}

func nonPlainKind(k string) bool {
	switch k {
	case "plain", "dotted", "long255":
		return false
	}
	return true
}

func classesOf(c *Case, v verdict, succeeded bool) ([]string, bool) {
	cl := []string{"fail"}
	if succeeded {
		cl[0] = "ok"
	}
	cl = append(cl, "model="+v.Expect)
	if c.CtxPolls > 0 {
		cl = append(cl, "context-ends-during-load")
		if v.Expect == "succeed" && len(v.Entries) >= 2 {
			cl = append(cl, "context-ends-during-load-of-several-files")
		}
	}
	if c.Reuse {
		cl = append(cl, "reused-store-value")
	}
	if c.Root != "" {
		cl = append(cl, "root-name-with-pattern-characters")
	}
	if v.Reason != "" {
		cl = append(cl, "reason="+v.Reason)
	}
	if validType(c.Type) {
		cl = append(cl, "type="+c.Type)
	} else {
		cl = append(cl, "type=invalid")
	}
	cl = append(cl, "name="+c.NameKind)
	if nonPlainKind(c.NameKind) {
		cl = append(cl, "name=nonplain")
	}
	cl = append(cl, "store="+v.Store)
	seen := map[string]bool{}
	mark := func(k string) {
		if !seen[k] {
			seen[k] = true
			cl = append(cl, "entry="+k)
		}
	}
	for _, e := range v.Entries {
		switch {
		case e.Kind == "dir":
			mark("subdir")
		case e.Kind == "symlink":
			mark(e.What)
		default:
			mark(e.What)
			for _, pc := range e.certs {
				mark(pc.Cat)
			}
		}
	}
	cl = append(cl, fmt.Sprint("entries=", len(v.Entries)))
	if v.Bad > 0 && v.Good > 0 {
		cl = append(cl, "bad-among-good")
	}
	if v.BadLate {
		cl = append(cl, "bad-after-good")
	}
	if c.Siblings > 0 {
		cl = append(cl, "decoy-sibling")
	}
	if c.SameType > 0 {
		cl = append(cl, "decoy-sibling-same-type")
	}
	if c.Strays > 0 {
		cl = append(cl, "decoy-stray-file")
	}
	if v.Expect == "either" {
		if succeeded {
			cl = append(cl, "silent-cell-succeeded:"+strings.TrimPrefix(v.Reason, "silent:"))
		} else {
			cl = append(cl, "silent-cell-failed:"+strings.TrimPrefix(v.Reason, "silent:"))
		}
	}
	nontrivial := (len(v.Entries) >= 2 && v.Bad > 0) || nonPlainKind(c.NameKind) || v.Store != "dir"
	return cl, nontrivial
}

// failer is what both *testing.T and *rapid.T offer.
type failer interface {
	Fatalf(format string, args ...any)
}

// run evaluates one case: model, real call, statistics, verdict.
func run(t failer, rec *stats.Recorder, c *Case) {
	if err := pool().err; err != nil {
		t.Fatalf("harness: %v", err)
	}
	v := model(c)
	key, msg, ok := check(c, v)
	if strings.HasPrefix(key, "harness:") {
		t.Fatalf("harness: %s: %s (case %+v)", key, msg, c.view())
	}
	cl, nt := classesOf(c, v, ok)
	rec.Case(cl, nt, c.fingerprint(), c.view)
	if key != "" {
		rec.Failf(t, key, c.view(), "%s", msg)
	}
}

// ---------------------------------------------------------------------------------------------
// builder shared by the generator and the enumeration

type builder struct {
	c   *Case
	t   *tree
	seq int
}

func newCase(typ, name, nameKind string) *builder {
	b := &builder{c: &Case{Type: typ, Name: name, NameKind: nameKind, Grid: -1}, t: newTree()}
	if materializable(typ, name) {
		if r := resolve(typ, name); strings.HasPrefix(r, "truststore/") || r == "truststore" {
			b.c.Resolved = r
		}
	}
	return b
}

type entry struct {
	Name string
	Spec espec
}

// store builds what the request points at: shape dir | symlink | file | absent.
// linkVar selects absolute (0) or relative (1) link targets for a symlinked store.
func (b *builder) store(shape string, linkVar int, entries []entry) {
	r := b.c.Resolved
	if r == "" {
		return // cannot exist on disk
	}
	d := r
	switch shape {
	case "dir":
		b.t.mkdirAll(r)
	case "symlink":
		d = "elsewhere/real-store"
		b.t.mkdirAll(d)
		target := "@BASE/" + d
		if linkVar%2 == 1 {
			target = relTo(path.Dir(r), d)
		}
		b.t.put(&node{Path: r, Kind: "symlink", What: "store-link", Var: linkVar % 2, Target: target})
	case "file":
		cs := []*pcert{pool().cat["root"][1]}
		b.t.put(certFile(r, "pem-single", 0, cs, pemOf(cs), false))
		return
	case "absent":
		if linkVar%2 == 1 {
			b.t.mkdirAll(path.Dir(r))
		}
		return
	default:
		panic("harness: shape " + shape)
	}
	for _, e := range entries {
		b.seq++
		addEntry(b.t, d, e.Name, e.Spec, b.seq)
	}
}

// sibling adds another store truststore/x509/<typ>/<name> holding decoy roots.
func (b *builder) sibling(typ, name string, nfiles int, der bool) {
	p := path.Join(x509Root, typ, name)
	if p == b.c.Resolved || b.t.m[p] != nil || !b.t.mkdirAll(p) {
		return
	}
	pl := pool()
	for i := 0; i < nfiles; i++ {
		b.seq++
		dc := []*pcert{pl.decoys[b.seq%len(pl.decoys)]}
		if der {
			b.t.put(certFile(fmt.Sprintf("%s/decoy%d.der", p, i), "der-single", 0, dc, derOf(dc), false))
		} else {
			b.t.put(certFile(fmt.Sprintf("%s/decoy%d.pem", p, i), "pem-single", 0, dc, pemOf(dc), false))
		}
	}
	b.c.Siblings++
	if typ == b.c.Type {
		b.c.SameType++
	}
}

// stray adds a single decoy certificate file somewhere in the tree.
func (b *builder) stray(p string) {
	pl := pool()
	b.seq++
	dc := []*pcert{pl.decoys[b.seq%len(pl.decoys)]}
	if b.t.put(certFile(p, "pem-single", 0, dc, pemOf(dc), false)) {
		b.c.Strays++
	}
}

func (b *builder) done() *Case {
	b.c.Nodes = b.t.sorted()
	return b.c
}
