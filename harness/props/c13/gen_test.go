package c13

import (
	"fmt"
	"path"
	"strings"
	"testing"

	"pgregory.net/rapid"

	"verifharness/internal/rp"
	"verifharness/internal/stats"
)

var (
	validTypes   = []string{"ca", "signingAuthority", "tsa"}
	invalidTypes = []string{"bogus", "CA", "Ca", "TSA", "Tsa", "signingauthority", "SigningAuthority", "signing-authority", "",
		"ca/", "./ca", "ca/.", "ca/../tsa", "tsa/../ca", "../x509/ca", "..", "x509", "ca ", " ca", "ca\n", "ca\\", "*", "ca,tsa", "ca\x00"}

	plainNames  = []string{"s1", "store", "acme-rockets", "My_Store-2", "0", "x", "A", "-", "_", "ca", "tsa", "x509", "truststore", "a-b_c"}
	dottedNames = []string{"a.b", "my.store.v1", "...", ".hidden", "a..b", "..a", "a.", "v1.0-rc_1", "....", ".-"}
	slashNames  = []string{"s1/", "a/b", "./s1", "/s1", "s1/.", "s1/../s1", "a//b", "../ca/s1", "../tsa/s1", "../signingAuthority/s1", "s1/x/..", "../../x509/ca/s1"}
	bslashNames = []string{"a\\b", "s1\\", "..\\s1", "\\", "\\s1", ".\\s1"}
	otherNames  = []string{"s 1", " s1", "s1 ", "s!1", "s:1", "s*", "~s", "s+1", "s@1", "sé", "\uff531", "s1\n", "\ns1", "s\t1", "s1\x00",
		"%2e%2e", "s1;", "s$HOME", "名前", "s1?", "s=1", "s,1", "(s1)", "s'1", "s\"1", "s|1", "s&1", "s#1", "s1\r", "\x7f", "s1\u200b"}
)

const outsiders = " !\"#$%&'()*+,:;<=>?@[]^`{|}~\t\néß"

func genType(rt *rapid.T) string {
	switch rapid.IntRange(0, 9).Draw(rt, "typeClass") {
	case 0, 1, 2:
		return "ca"
	case 3, 4:
		return "signingAuthority"
	case 5, 6, 7:
		return "tsa"
	}
	return rapid.SampledFrom(invalidTypes).Draw(rt, "invalidType")
}

func randFrom(rt *rapid.T, label, alphabet string, lo, hi int) string {
	rs := []rune(alphabet)
	n := rapid.IntRange(lo, hi).Draw(rt, label+"Len")
	var sb strings.Builder
	for i := 0; i < n; i++ {
		sb.WriteRune(rs[rapid.IntRange(0, len(rs)-1).Draw(rt, label)])
	}
	return sb.String()
}

const nameChars = "abcxyzABZ019_-."

func genName(rt *rapid.T) (kind, name string) {
	switch rapid.IntRange(0, 22).Draw(rt, "nameClass") {
	case 0, 1, 2, 3, 4:
		return "plain", rapid.SampledFrom(plainNames).Draw(rt, "plainName")
	case 5, 6, 7, 8: // random name over the documented alphabet
		s := randFrom(rt, "nameChar", nameChars, 1, 12)
		if dotOnly(s) {
			s = "d" + s
		}
		if strings.Contains(s, ".") {
			return "dotted", s
		}
		return "plain", s
	case 9, 10, 11:
		return "dotted", rapid.SampledFrom(dottedNames).Draw(rt, "dottedName")
	case 12:
		fill := rapid.SampledFrom([]string{"n", "a.", "-_"}).Draw(rt, "longFill")
		return "long255", strings.Repeat(fill, 255)[:255]
	case 13:
		return "dot", "."
	case 14:
		return "dotdot", ".."
	case 15, 16:
		return "slash", rapid.SampledFrom(slashNames).Draw(rt, "slashName")
	case 17:
		return "backslash", rapid.SampledFrom(bslashNames).Draw(rt, "bslashName")
	case 18:
		return "empty", ""
	case 19:
		return "toolong", strings.Repeat("a", rapid.SampledFrom([]int{256, 300, 5000}).Draw(rt, "tooLong"))
	case 20: // a plain name with one character from outside the alphabet inserted
		s := randFrom(rt, "nameChar", nameChars, 0, 6)
		pos := rapid.IntRange(0, len(s)).Draw(rt, "outsiderPos")
		return "otherchars", s[:pos] + randFrom(rt, "outsider", outsiders, 1, 1) + s[pos:]
	}
	return "otherchars", rapid.SampledFrom(otherNames).Draw(rt, "otherName")
}

const fileChars = "abmzAZ09_-. ~#é"

func genFileNames(rt *rapid.T, n int) []string {
	seen := map[string]bool{}
	out := make([]string, 0, n)
	for i := 0; i < n; i++ {
		s := randFrom(rt, "fileChar", fileChars, 1, 5)
		s += rapid.SampledFrom([]string{".pem", ".crt", ".cer", ".der", "", "", ".txt"}).Draw(rt, "ext")
		if dotOnly(s) {
			s = "f" + s
		}
		if seen[s] {
			s = fmt.Sprint(s, "_", i)
		}
		seen[s] = true
		out = append(out, s)
	}
	return out
}

// cert categories acceptable in a store of the given (effective) type
func goodCats(typ string) []string {
	if typ == "tsa" {
		return []string{"root"}
	}
	return []string{"root", "root", "root", "inter", "inter", "inter", "ssleaf", "ssleaf", "cross"}
}

func drawCert(rt *rapid.T, cat string) *pcert {
	l := pool().cat[cat]
	return l[rapid.IntRange(0, len(l)-1).Draw(rt, "certIdx")]
}

// genCertFile draws an encoding and certificates from the given categories.
func genCertFile(rt *rapid.T, cats []string) espec {
	what := rp.Pick(rt, "encoding", "pem-single", "pem-single", "pem-single", "pem-multi", "pem-multi", "der-single", "der-single", "der-single", "der-concat", "der-concat")
	k := 1
	if what == "pem-multi" || what == "der-concat" {
		k = rapid.IntRange(2, 3).Draw(rt, "ncerts")
	}
	e := espec{What: what}
	for i := 0; i < k; i++ {
		e.Certs = append(e.Certs, drawCert(rt, rapid.SampledFrom(cats).Draw(rt, "cat")))
	}
	return e
}

// genBad draws an entry that must make the store fail.
func genBad(rt *rapid.T, typ string) espec {
	kinds := []string{"badcert", "badcert", "empty", "garbage", "pem-noncert", "subdir", "symlink", "symlink", "dangling"}
	k := rapid.SampledFrom(kinds).Draw(rt, "badKind")
	v := rapid.IntRange(0, 5).Draw(rt, "variant")
	switch k {
	case "badcert":
		e := genCertFile(rt, goodCats(typ))
		bad := []string{"leaf"}
		if typ == "tsa" {
			bad = []string{"leaf", "inter", "inter", "cross"}
		}
		e.Certs[rapid.IntRange(0, len(e.Certs)-1).Draw(rt, "badPos")] = drawCert(rt, rapid.SampledFrom(bad).Draw(rt, "badCat"))
		return e
	case "pem-noncert":
		if v%3 != 0 { // certificate + key: bad only through a bad certificate
			return espec{What: k, Var: v, Certs: []*pcert{drawCert(rt, "leaf")}}
		}
	}
	return espec{What: k, Var: v}
}

// genAny draws from every entry kind, including the cells where the statement is silent.
func genAny(rt *rapid.T, typ string) espec {
	all := []string{"root", "root", "inter", "ssleaf", "cross", "leaf"}
	switch rapid.IntRange(0, 9).Draw(rt, "anyKind") {
	case 0, 1, 2, 3, 4:
		return genCertFile(rt, all)
	case 5, 6:
		return genBad(rt, typ)
	case 7:
		return espec{What: "pem-noncert", Var: rapid.IntRange(0, 2).Draw(rt, "variant"), Certs: []*pcert{drawCert(rt, rapid.SampledFrom(all).Draw(rt, "cat"))}}
	case 8:
		return espec{What: "pem-text", Var: rapid.IntRange(0, 1).Draw(rt, "variant"), Certs: []*pcert{drawCert(rt, rapid.SampledFrom(all).Draw(rt, "cat"))}}
	}
	return genCertFile(rt, goodCats(typ))
}

func genCase(rt *rapid.T) *Case {
	typ := genType(rt)
	nameKind, name := genName(rt)
	b := newCase(typ, name, nameKind)
	eff := typ
	if !validType(eff) {
		eff = rp.Pick(rt, "effType", "ca", "tsa")
	}
	suspicious := !validType(typ) || nonPlainKind(nameKind)
	shape := "dir" // rapid favours small values: the odd shapes sit at the high end on purpose
	if x := rapid.IntRange(0, 19).Draw(rt, "shape"); (suspicious && x >= 18) || (!suspicious && x >= 14) {
		shape = rp.Pick(rt, "oddShape", "symlink", "symlink", "symlink", "file", "absent", "absent")
	}
	suspicious = suspicious || shape == "symlink"

	n := rp.Pick(rt, "entries", 0, 1, 1, 1, 2, 2, 2, 2, 3, 3, 3, 4, 4, 5)
	mode := rapid.IntRange(0, 19).Draw(rt, "mode") // all good | one bad among good | free mix
	switch {
	case suspicious && mode < 14, !suspicious && mode < 7:
		mode = 0
	case suspicious && mode < 17, !suspicious && mode < 15:
		mode = 1
	default:
		mode = 2
	}
	names := genFileNames(rt, n)
	entries := make([]entry, n)
	for i := range entries {
		entries[i].Name = names[i]
		if mode == 2 {
			entries[i].Spec = genAny(rt, eff)
		} else {
			entries[i].Spec = genCertFile(rt, goodCats(eff))
		}
	}
	if mode == 1 && n > 0 {
		entries[rapid.IntRange(0, n-1).Draw(rt, "badIdx")].Spec = genBad(rt, eff)
	}
	b.store(shape, rapid.IntRange(0, 1).Draw(rt, "linkVar"), entries)

	// sibling stores holding other valid roots
	short := len(name) <= 64 && nameAlphabet(name) && !dotOnly(name)
	for i, ns := 0, rp.Pick(rt, "siblings", 0, 1, 1, 1, 2, 2); i < ns; i++ {
		st := rp.Pick(rt, "sibType", eff, eff, "ca", "signingAuthority", "tsa")
		cand := []string{"other", "s2", "S1", "zz", "s1"}
		if short {
			cand = append(cand, name+"2", name+".d", "x"+name, strings.ToUpper(name), name[:len(name)-1]+"_")
		}
		b.sibling(st, rapid.SampledFrom(cand).Draw(rt, "sibName"), rp.Pick(rt, "sibFiles", 1, 1, 1, 2), rapid.Bool().Draw(rt, "sibDER"))
	}
	// certificate files elsewhere in the tree
	for i, ns := 0, rp.Pick(rt, "strays", 0, 1, 1, 2); i < ns; i++ {
		loc := []string{fmt.Sprintf("stray%d.pem", i), fmt.Sprintf("truststore/stray%d.pem", i), fmt.Sprintf("truststore/x509/stray%d.crt", i),
			fmt.Sprintf("truststore/x509/%s/stray%d.pem", eff, i)}
		if b.c.Resolved != "" && len(path.Base(b.c.Resolved)) <= 200 {
			loc = append(loc, b.c.Resolved+".pem")
		}
		b.stray(rapid.SampledFrom(loc).Draw(rt, "strayLoc"))
	}
	c := b.done()
	c.Reuse = rapid.IntRange(0, 3).Draw(rt, "reuseStoreValue") == 0
	c.Root = rp.Pick(rt, "rootDirName", "", "", "", "cfg[1]", "notation*", "c?g", "cf\\g", "[c]fg")
	if rapid.IntRange(0, 4).Draw(rt, "endingContext") == 0 {
		c.CtxPolls = rapid.IntRange(1, 6).Draw(rt, "ctxPolls")
	}
	return c
}

func TestC13_Random(t *testing.T) {
	rec := stats.New(t, "C13", rule)
	if err := pool().err; err != nil {
		t.Fatalf("harness: %v", err)
	}
	rp.Check(t, 8000, 150000, func(rt *rapid.T) {
		run(rt, rec, genCase(rt))
	})
}
