package c13

import (
	"bytes"
	"context"
	"crypto/x509"
	"encoding/pem"
	"fmt"
	"os"
	"path/filepath"
	"sync"
	"testing"

	"github.com/notaryproject/notation-go/dir"
	"github.com/notaryproject/notation-go/verifier/truststore"

	"verifharness/internal/stats"
)

// TestC13_LargeBundle: "returns exactly the certificates of those files ... fails as a whole rather
// than returning a partial set" does not stop at any file size. A PEM bundle of about 1.6 MiB (one
// CA certificate repeated, so that nothing has to be minted) must come back complete; the same
// bundle with a leaf certificate (or garbage) at its very end must make the load fail. Sizes just
// below / above the powers of two where a reader might give up are tried. Runs in one shard.
func TestC13_LargeBundle(t *testing.T) {
	rec := stats.New(t, "C13", rule)
	if s, n := stats.Shard(); s != 2%n {
		t.Skip("runs in one shard")
	}
	p := pool()
	ca := pem.EncodeToMemory(&pem.Block{Type: "CERTIFICATE", Bytes: p.cat["root"][0].X.Raw})
	leaf := pem.EncodeToMemory(&pem.Block{Type: "CERTIFICATE", Bytes: p.cat["leaf"][0].X.Raw})
	for _, target := range []int{64 << 10, 1<<20 - len(ca), 1 << 20, 1<<20 + 3*len(ca), 1600 << 10, 4<<20 + 1} {
		n := target/len(ca) + 1
		for _, tail := range []string{"none", "leaf", "garbage"} {
			name := fmt.Sprintf("bundle~%dKiB+%s", target>>10, tail)
			rec.Case([]string{"large-bundle", "large-bundle-tail=" + tail}, true, stats.Fingerprint("large", target, tail), func() any { return name })
			base, err := os.MkdirTemp("", "c13-big-")
			if err != nil {
				t.Fatalf("harness: %v", err)
			}
			d := filepath.Join(base, "truststore", "x509", "ca", "big")
			os.MkdirAll(d, 0o755)
			data := bytes.Repeat(ca, n)
			switch tail {
			case "leaf":
				data = append(data, leaf...)
			case "garbage":
				data = append(data, []byte("-----BEGIN CERTIFICATE-----\nthis is not base64 at all\n-----END CERTIFICATE-----\n")...)
			}
			os.WriteFile(filepath.Join(d, "bundle.pem"), data, 0o644)
			certs, err := truststore.NewX509TrustStore(dir.NewSysFS(base)).GetCertificates(context.Background(), truststore.TypeCA, "big")
			os.RemoveAll(base)
			switch {
			case tail == "none" && err != nil:
				rec.Failf(t, "C13:large-bundle:refused", name, "a bundle of %d valid CA certificates (%d bytes) was refused: %v", n, len(data), err)
			case tail == "none" && len(certs) != n:
				rec.Failf(t, "C13:large-bundle:partial-set", name, "a bundle of %d certificates (%d bytes) came back as %d certificates without an error", n, len(data), len(certs))
			case tail != "none" && err == nil:
				rec.Failf(t, "C13:large-bundle:bad-tail-ignored", name, "the bundle (%d bytes) ends in a %s entry, yet the load succeeded with %d certificates", len(data), tail, len(certs))
			}
		}
	}
}

// TestC13_ConcurrentLoads: what a load returns does not depend on which other stores the process
// is loading at the same moment. Twelve goroutines load twelve different stores (all three
// types, each holding its own certificate) from one trust-store value, over and over; every
// result must be exactly the store's own certificate. Runs in one shard.
func TestC13_ConcurrentLoads(t *testing.T) {
	rec := stats.New(t, "C13", rule)
	if s, n := stats.Shard(); s != 3%n {
		t.Skip("runs in one shard")
	}
	p := pool()
	base, err := os.MkdirTemp("", "c13-conc-")
	if err != nil {
		t.Fatalf("harness: %v", err)
	}
	defer os.RemoveAll(base)
	type st struct {
		typ  truststore.Type
		name string
		cert *x509.Certificate
	}
	var stores []st
	roots := append(append([]*pcert{}, p.cat["root"]...), p.decoys...)
	for i := 0; i < 12; i++ {
		s := st{typ: []truststore.Type{truststore.TypeCA, truststore.TypeSigningAuthority, truststore.TypeTSA}[i%3], name: fmt.Sprintf("store%d", i/3), cert: roots[i%len(roots)].X}
		d := filepath.Join(base, "truststore", "x509", string(s.typ), s.name)
		os.MkdirAll(d, 0o755)
		os.WriteFile(filepath.Join(d, "c.pem"), pem.EncodeToMemory(&pem.Block{Type: "CERTIFICATE", Bytes: s.cert.Raw}), 0o644)
		stores = append(stores, s)
	}
	ts := truststore.NewX509TrustStore(dir.NewSysFS(base))
	rounds := 400
	if stats.Tier() == "thorough" {
		rounds = 8000
	}
	var mu sync.Mutex
	var firstKey, firstMsg string
	total := 0
	var wg sync.WaitGroup
	for w := range stores {
		w := w
		wg.Add(1)
		go func() {
			defer wg.Done()
			for i := 0; i < rounds; i++ {
				s := stores[(w+i)%len(stores)]
				certs, err := ts.GetCertificates(context.Background(), s.typ, s.name)
				mu.Lock()
				total++
				if firstKey == "" {
					switch {
					case err != nil:
						firstKey, firstMsg = "C13:concurrent:valid-store-failed", fmt.Sprintf("loading %s:%s failed while other stores were being loaded: %v", s.typ, s.name, err)
					case len(certs) != 1 || !certs[0].Equal(s.cert):
						firstKey, firstMsg = "C13:concurrent:certificates-from-elsewhere", fmt.Sprintf("loading %s:%s returned %d certificate(s), not the store's own one, while other stores were being loaded", s.typ, s.name, len(certs))
					}
				}
				stop := firstKey != ""
				mu.Unlock()
				if stop {
					return
				}
			}
		}()
	}
	wg.Wait()
	rec.Case([]string{"concurrent-loads"}, true, stats.Fingerprint("c13-concurrent", rounds), func() any {
		return map[string]any{"goroutines": len(stores), "loads": total}
	})
	rec.Add("count_concurrent_loads", int64(total))
	if firstKey != "" {
		rec.Failf(t, firstKey, map[string]any{"loads_before_failure": total}, "%s", firstMsg)
	}
}
