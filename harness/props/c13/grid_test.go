package c13

import (
	"strings"
	"testing"

	"verifharness/internal/rp"
	"verifharness/internal/stats"
)

// gridSpecs lists every entry kind / encoding / certificate category combination once.
func gridSpecs() []espec {
	p := pool()
	c := func(cat string, i int) *pcert { return p.cat[cat][i] }
	var out []espec
	for _, cat := range []string{"root", "inter", "cross", "leaf", "ssleaf"} {
		for i := range p.cat[cat] {
			out = append(out, espec{What: "pem-single", Certs: []*pcert{c(cat, i)}}, espec{What: "der-single", Certs: []*pcert{c(cat, i)}})
		}
	}
	multis := [][]*pcert{
		{c("root", 0), c("inter", 0)}, {c("root", 0), c("root", 1)}, {c("inter", 0), c("leaf", 0)}, {c("leaf", 0), c("root", 0)},
		{c("root", 0), c("ssleaf", 0)}, {c("root", 0), c("inter", 0), c("inter", 1)}, {c("root", 2), c("root", 2)}, {c("root", 1), c("cross", 0)},
		{c("root", 3), c("root", 4), c("root", 0)}, {c("root", 0), c("root", 5)}, {c("root", 5), c("inter", 0), c("root", 0)},
	}
	for _, m := range multis {
		out = append(out, espec{What: "pem-multi", Certs: m}, espec{What: "der-concat", Certs: m})
	}
	out = append(out, espec{What: "empty"})
	for v := 0; v < 6; v++ {
		out = append(out, espec{What: "garbage", Var: v})
	}
	out = append(out, espec{What: "pem-noncert", Var: 0})
	for _, pc := range []*pcert{c("root", 0), c("leaf", 0), c("inter", 0), c("ssleaf", 0)} {
		out = append(out, espec{What: "pem-noncert", Var: 1, Certs: []*pcert{pc}}, espec{What: "pem-noncert", Var: 2, Certs: []*pcert{pc}},
			espec{What: "pem-text", Var: 0, Certs: []*pcert{pc}}, espec{What: "pem-text", Var: 1, Certs: []*pcert{pc}})
	}
	out = append(out, espec{What: "subdir", Var: 0}, espec{What: "subdir", Var: 1},
		espec{What: "symlink", Var: 0}, espec{What: "symlink", Var: 1}, espec{What: "symlink", Var: 2},
		espec{What: "dangling", Var: 0}, espec{What: "dangling", Var: 1})
	return out
}

func goodPair() []entry {
	p := pool()
	return []entry{
		{Name: "b-good.pem", Spec: espec{What: "pem-single", Certs: []*pcert{p.cat["root"][0]}}},
		{Name: "d-good.der", Spec: espec{What: "der-single", Certs: []*pcert{p.cat["root"][1]}}},
	}
}

func nameKindOf(n string) string {
	switch {
	case n == ".":
		return "dot"
	case n == "..":
		return "dotdot"
	case n == "":
		return "empty"
	case len(n) > 255:
		return "toolong"
	case strings.Contains(n, "/"):
		return "slash"
	case strings.Contains(n, "\\"):
		return "backslash"
	case !nameAlphabet(n):
		return "otherchars"
	case len(n) == 255:
		return "long255"
	case strings.Contains(n, "."):
		return "dotted"
	}
	return "plain"
}

// TestC13_Grid enumerates the factor values one (or two) at a time, so that every entry kind at
// every position, every listed name and type, and every store shape is evaluated in every run.
func TestC13_Grid(t *testing.T) {
	rec := stats.New(t, "C13", rule)
	if err := pool().err; err != nil {
		t.Fatalf("harness: %v", err)
	}
	only := -1
	var rc struct {
		Grid *int `json:"grid"`
	}
	if rp.ReplayCase(&rc) {
		if rc.Grid == nil || *rc.Grid < 0 {
			return
		}
		only = *rc.Grid
	}
	shard, shards := stats.Shard()
	idx := 0
	emit := func(mk func() *Case) {
		idx++
		if only >= 0 {
			if idx != only {
				return
			}
		} else if idx%shards != shard {
			return
		}
		c := mk()
		c.Grid = idx
		run(t, rec, c)
	}

	// A. every entry kind alone, before, between and after good entries
	specs := gridSpecs()
	for _, typ := range validTypes {
		for _, sp := range specs {
			for pos := 0; pos < 4; pos++ {
				typ, sp, pos := typ, sp, pos
				emit(func() *Case {
					b := newCase(typ, "s1", "plain")
					var es []entry
					switch pos {
					case 0:
						es = []entry{{Name: "subject", Spec: sp}}
					case 1:
						es = append([]entry{{Name: "a-subject", Spec: sp}}, goodPair()...)
					case 2:
						es = append([]entry{{Name: "c-subject", Spec: sp}}, goodPair()...)
					case 3:
						es = append([]entry{{Name: "e-subject", Spec: sp}}, goodPair()...)
					}
					b.store("dir", 0, es)
					b.sibling(typ, "other", 1, false)
					b.sibling(validTypes[(pos+1)%3], "s1", 1, true)
					b.stray(x509Root + "/" + typ + "/stray.pem")
					return b.done()
				})
			}
		}
	}

	// B. every listed name against a store that is otherwise valid
	var names []string
	for _, l := range [][]string{plainNames, dottedNames, slashNames, bslashNames, otherNames} {
		names = append(names, l...)
	}
	names = append(names, ".", "..", "", strings.Repeat("n", 255), strings.Repeat("a.", 128)[:255], strings.Repeat("a", 256), strings.Repeat("a", 5000))
	for _, typ := range validTypes {
		for _, n := range names {
			for sib := 0; sib < 2; sib++ {
				typ, n, sib := typ, n, sib
				emit(func() *Case {
					b := newCase(typ, n, nameKindOf(n))
					b.store("dir", 0, goodPair())
					if sib == 1 {
						b.sibling(typ, "zz", 1, false)
						b.stray(x509Root + "/stray.pem")
					}
					return b.done()
				})
			}
		}
	}

	// C. store shapes
	for _, typ := range validTypes {
		for _, shape := range []string{"dir", "symlink", "file", "absent"} {
			for lv := 0; lv < 2; lv++ {
				for _, ng := range []int{0, 1, 2} {
					typ, shape, lv, ng := typ, shape, lv, ng
					emit(func() *Case {
						b := newCase(typ, "a.b", "dotted")
						b.store(shape, lv, goodPair()[:ng])
						b.sibling(typ, "a", 1, false)
						return b.done()
					})
				}
			}
		}
	}

	// D. invalid types (and valid ones as the control) against a valid store where they point
	for _, typ := range append(append([]string{}, invalidTypes...), validTypes...) {
		for _, n := range []string{"s1", "a.b"} {
			typ, n := typ, n
			emit(func() *Case {
				b := newCase(typ, n, nameKindOf(n))
				b.store("dir", 0, goodPair())
				b.sibling("ca", "zz", 1, false)
				return b.done()
			})
		}
	}

	// E. dot-only names where the directory they resolve to holds nothing but valid files
	// (statement silent: both outcomes accepted, the result must be exactly those files), and the
	// same with one bad file (must fail).
	for _, typ := range validTypes {
		for _, n := range []string{".", ".."} {
			for bad := 0; bad < 2; bad++ {
				typ, n, bad := typ, n, bad
				emit(func() *Case {
					b := newCase(typ, n, nameKindOf(n))
					es := goodPair()
					if bad == 1 {
						es = append(es, entry{Name: "z-leaf.pem", Spec: espec{What: "pem-single", Certs: []*pcert{pool().cat["leaf"][0]}}})
					}
					b.store("dir", 0, es)
					b.stray("stray.pem")
					return b.done()
				})
			}
		}
	}
	if only < 0 {
		rec.Set("grid_cases", idx) // a designed factor list, not an exhaustive sub-space
	}
}
