package c13

import (
	"context"
	"encoding/pem"
	"fmt"
	"os"
	"path/filepath"
	"testing"

	"github.com/notaryproject/notation-go/dir"
	"github.com/notaryproject/notation-go/verifier/truststore"

	"verifharness/internal/stats"
)

// TestC13_ManyFiles: "returns exactly the certificates of those files ... its every entry is a regular
// file" does not stop at any number of entries either. Stores of 300, 1023, 1024, 1025, 1100, 2100 and
// 4200 files (one CA certificate per file, the same one, so that nothing has to be minted) must come
// back complete; the same store with one bad entry - a leaf certificate, garbage, a sub-directory, a
// symbolic link - must fail, wherever the directory listing places that entry (the bad entry is tried
// under a name that sorts first, in the middle and last, and the load is judged for each). Runs in one
// shard.
func TestC13_ManyFiles(t *testing.T) {
	rec := stats.New(t, "C13", rule)
	if s, n := stats.Shard(); s != 4%n {
		t.Skip("runs in one shard")
	}
	p := pool()
	ca := pem.EncodeToMemory(&pem.Block{Type: "CERTIFICATE", Bytes: p.cat["root"][0].X.Raw})
	leaf := pem.EncodeToMemory(&pem.Block{Type: "CERTIFICATE", Bytes: p.cat["leaf"][0].X.Raw})
	counts := []int{300, 1023, 1024, 1025, 1100, 2100}
	if stats.Tier() == "thorough" {
		counts = append(counts, 4200, 9000)
	}
	for _, n := range counts {
		base, err := os.MkdirTemp("", "c13-many-")
		if err != nil {
			t.Fatalf("harness: %v", err)
		}
		d := filepath.Join(base, "truststore", "x509", "ca", "many")
		os.MkdirAll(d, 0o755)
		for i := 0; i < n; i++ {
			if err := os.WriteFile(filepath.Join(d, fmt.Sprintf("c%05d.pem", i)), ca, 0o644); err != nil {
				os.RemoveAll(base)
				t.Fatalf("harness: %v", err)
			}
		}
		load := func() (int, error) {
			certs, err := truststore.NewX509TrustStore(dir.NewSysFS(base)).GetCertificates(context.Background(), truststore.TypeCA, "many")
			return len(certs), err
		}
		name := fmt.Sprintf("%d files", n)
		rec.Case([]string{"many-files", "many-files-bad-entry=none"}, true, stats.Fingerprint("many", n, "none"), func() any { return name })
		if got, err := load(); err != nil {
			rec.Failf(t, "C13:many-files:refused", name, "a store of %d valid CA certificate files was refused: %v", n, err)
		} else if got != n {
			rec.Failf(t, "C13:many-files:partial-set", name, "a store of %d certificate files came back as %d certificates without an error", n, got)
		}
		for _, bad := range []string{"leaf", "garbage", "subdir", "symlink"} {
			for _, at := range []string{"a-first", fmt.Sprintf("c%05d-mid", n/2), "zz-last"} {
				entry := filepath.Join(d, at)
				switch bad {
				case "leaf":
					os.WriteFile(entry, leaf, 0o644)
				case "garbage":
					os.WriteFile(entry, []byte("this is not a certificate"), 0o644)
				case "subdir":
					os.Mkdir(entry, 0o755)
				case "symlink":
					os.Symlink(filepath.Join(d, "c00000.pem"), entry)
				}
				cname := fmt.Sprintf("%d files + %s entry %q", n, bad, at)
				rec.Case([]string{"many-files", "many-files-bad-entry=" + bad}, true, stats.Fingerprint("many", n, bad, at), func() any { return cname })
				if got, err := load(); err == nil {
					rec.Failf(t, "C13:many-files:bad-entry-ignored", cname, "the store holds %d good files and one %s entry named %q, yet the load succeeded with %d certificates", n, bad, at, got)
				}
				os.RemoveAll(entry)
			}
		}
		os.RemoveAll(base)
	}
}
