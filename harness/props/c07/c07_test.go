// C07 — what the library signs, it verifies, and it reports what was signed.
// Round trips through the real signing API (local and honest in-process plugin signers),
// every observable recomputed independently. DESIGN.md section 5, C07.
package c07

import (
	"bytes"
	"context"
	"encoding/base64"
	"encoding/json"
	"errors"
	"fmt"
	"io"
	"reflect"
	"sort"
	"strings"
	"sync"
	"testing"
	"testing/iotest"
	"time"

	"github.com/fxamacker/cbor/v2"
	"github.com/notaryproject/notation-go"
	"github.com/notaryproject/notation-go/signer"
	"github.com/notaryproject/notation-go/verifier"
	"github.com/notaryproject/notation-go/plugin/proto"
	pf "github.com/notaryproject/notation-plugin-framework-go/plugin"
	"github.com/opencontainers/go-digest"
	ocispec "github.com/opencontainers/image-spec/specs-go/v1"
	"pgregory.net/rapid"

	"verifharness/internal/envb"
	"verifharness/internal/kit"
	"verifharness/internal/mocks"
	"verifharness/internal/pki"
	"verifharness/internal/rp"
	"verifharness/internal/stats"
)

const rule = "case = full sign->verify round trip (key spec, envelope format, signer kind, OCI descriptor with extra fields or blob of generated size/media type, user metadata, expiry duration, signing agent); every case is non-trivial; distinct by (key spec, format, signer kind, target kind, descriptor/blob fingerprint, metadata, expiry)"

// Case is the replay format.
type Case struct {
	KeySpec    string             `json:"keySpec"`
	Format     string             `json:"format"`
	Signer     string             `json:"signer"` // local plugin-raw plugin-envelope
	Kind       string             `json:"kind"`   // oci blob
	Desc       ocispec.Descriptor `json:"desc"`
	BlobLen    int                `json:"blobLen"`
	BlobSeed   byte               `json:"blobSeed"`
	MediaType  string             `json:"mediaType"`
	Metadata   map[string]string  `json:"metadata"`
	ExpirySecs int64              `json:"expirySecs"`
	Agent      string             `json:"agent"`
	Identity   string             `json:"identity"`
	SignReader string             `json:"signReader"` // how the blob is presented to SignBlob / VerifyBlob
	VerReader  string             `json:"verifyReader"`
	// FailFirst: before the round trip, one blob operation of the same kind is fed a reader that
	// fails in mid-stream (its error is expected); it must not influence the round trip that follows
	FailFirst string `json:"failFirst,omitempty"` // "", sign, verify
	// EmptyAnn: the artifact descriptor carries an empty, non-nil annotation map (what decoding
	// "annotations": {} yields); kept as a flag because JSON replays drop an empty map
	EmptyAnn bool `json:"emptyAnnotations,omitempty"`
	// VerifyOmit (blob): what the caller leaves out at verification although it was stated at
	// signing - "media-type", "metadata", "both", "metadata-subset"; what comes back still
	// describes what was signed
	VerifyOmit string `json:"verifyOmit,omitempty"`
	// OtherKeyFirst (plugin signers): the SAME signer object first signs once with a per-call plugin
	// configuration that makes the plugin use another key (other key spec, other hash); the judged
	// signing follows without that configuration
	OtherKeyFirst string `json:"otherKeyFirst,omitempty"` // key spec of the earlier signing
	// StrangerFirst (oci): before the verification, somebody the policy does not trust has attached a
	// signature of the OTHER envelope format to the artifact; it is listed first and fails, the
	// library's own signature comes second and must verify all the same
	StrangerFirst bool `json:"strangerFirst,omitempty"`
	// SignedBefore (oci): the repository keeps the descriptor objects it resolves (as an OCI layout or a
	// caching client does) and the same artifact has been signed once before, with other user metadata:
	// "the verified payload equals the signed descriptor ... (user metadata included)" - the metadata of
	// this call, not of an earlier one
	SignedBefore bool `json:"signedBefore,omitempty"`
	// Transient (plugin signers): the plugin answers ONE command once with a retryable error code
	// (THROTTLED / TIMEOUT) and works from then on: "metadata", "describe", "generate" + ":" + code.
	// Whether the library gives up or tries again is its business; a signature it returns must be
	// a signature of what it was asked to sign
	Transient string `json:"transient,omitempty"`
	// TrustRotated: the verifier is a long-lived object. When it is created, and while it verifies
	// an earlier signature of somebody else, the policy's trust store holds that other signer's
	// root; then the store's content is replaced by the judged signer's root ("a policy that
	// trusts the signer" is about what the store holds when the verification happens)
	TrustRotated bool `json:"trustRotated,omitempty"`
}

type failingReader struct {
	data []byte
	off  int
}

func (f *failingReader) Read(p []byte) (int, error) {
	if f.off >= len(f.data)/2 {
		return 0, errors.New("scripted read failure in mid-stream")
	}
	n := copy(p, f.data[f.off:len(f.data)/2])
	f.off += n
	return n, nil
}

// reader wraps blob bytes in readers with different (all legal) io.Reader behaviours.
func reader(kind string, b []byte) io.Reader {
	switch kind {
	case "data-with-eof": // returns the final data together with io.EOF
		return iotest.DataErrReader(bytes.NewReader(b))
	case "one-byte":
		return iotest.OneByteReader(bytes.NewReader(b))
	case "half":
		return iotest.HalfReader(bytes.NewReader(b))
	case "buffer":
		return bytes.NewBuffer(append([]byte{}, b...))
	case "no-writer-to": // hides WriterTo/ReaderFrom fast paths
		return struct{ io.Reader }{bytes.NewReader(b)}
	case "data-with-eof-one-byte":
		return iotest.DataErrReader(iotest.OneByteReader(bytes.NewReader(b)))
	}
	return bytes.NewReader(b)
}

var readerKinds = []string{"bytes", "bytes", "data-with-eof", "one-byte", "half", "buffer", "no-writer-to", "data-with-eof-one-byte"}

// ---- honest in-process plugin ----

type honestPlugin struct {
	caps    []pf.Capability
	chain   *pki.Chain
	keySpec string
	keyID   string
	// failOnce: command -> error code answered once
	failOnce map[string]string
	mu       sync.Mutex
	// yield: called inside the signing commands (lets a test interleave overlapping calls)
	yield func()
}

func (p *honestPlugin) transient(cmd string) error {
	p.mu.Lock()
	defer p.mu.Unlock()
	if code, ok := p.failOnce[cmd]; ok {
		delete(p.failOnce, cmd)
		return proto.RequestError{Code: proto.ErrorCode(code), Err: errors.New("scripted transient failure")}
	}
	return nil
}

func (p *honestPlugin) GetMetadata(ctx context.Context, req *pf.GetMetadataRequest) (*pf.GetMetadataResponse, error) {
	if err := p.transient("metadata"); err != nil {
		return nil, err
	}
	return &pf.GetMetadataResponse{Name: "honest", Description: "honest in-process plugin", Version: "1.0.0", URL: "https://example.invalid",
		SupportedContractVersions: []string{"1.0"}, Capabilities: p.caps}, nil
}
// sel returns the key spec and chain a request selects: the plugin's default key, or the one named
// by the per-call plugin configuration "verif.keySpec".
func (p *honestPlugin) sel(cfg map[string]string) (string, *pki.Chain) {
	if ks := cfg["verif.keySpec"]; ks != "" {
		return ks, chainFor(ks)
	}
	return p.keySpec, p.chain
}

func (p *honestPlugin) DescribeKey(ctx context.Context, req *pf.DescribeKeyRequest) (*pf.DescribeKeyResponse, error) {
	if err := p.transient("describe"); err != nil {
		return nil, err
	}
	ks, _ := p.sel(req.PluginConfig)
	return &pf.DescribeKeyResponse{KeyID: req.KeyID, KeySpec: pf.KeySpec(ks)}, nil
}
func (p *honestPlugin) GenerateSignature(ctx context.Context, req *pf.GenerateSignatureRequest) (*pf.GenerateSignatureResponse, error) {
	alg := map[string]pf.SignatureAlgorithm{"EC-256": pf.SignatureAlgorithmECDSA_SHA256, "EC-384": pf.SignatureAlgorithmECDSA_SHA384, "EC-521": pf.SignatureAlgorithmECDSA_SHA512,
		"RSA-2048": pf.SignatureAlgorithmRSASSA_PSS_SHA256, "RSA-3072": pf.SignatureAlgorithmRSASSA_PSS_SHA384, "RSA-4096": pf.SignatureAlgorithmRSASSA_PSS_SHA512}
	if err := p.transient("generate"); err != nil {
		return nil, err
	}
	if p.yield != nil {
		p.yield()
	}
	ks, ch := p.sel(req.PluginConfig)
	var chain [][]byte
	for _, c := range ch.X509() {
		chain = append(chain, c.Raw)
	}
	return &pf.GenerateSignatureResponse{KeyID: req.KeyID, Signature: envb.RawSign(ch.Leaf().Key, req.Payload), SigningAlgorithm: alg[ks], CertificateChain: chain}, nil
}
func (p *honestPlugin) GenerateEnvelope(ctx context.Context, req *pf.GenerateEnvelopeRequest) (*pf.GenerateEnvelopeResponse, error) {
	if err := p.transient("generate"); err != nil {
		return nil, err
	}
	if p.yield != nil {
		p.yield()
	}
	now := time.Now()
	_, ch := p.sel(req.PluginConfig)
	spec := envb.Spec{Format: req.SignatureEnvelopeType, Payload: req.Payload, ContentType: req.PayloadType, Scheme: envb.SchemeX509, SigningTime: now,
		Chain: ch.X509(), Key: ch.Leaf().Key, Agent: "honest plugin"}
	if req.ExpiryDurationInSeconds > 0 {
		spec.Expiry = now.Add(time.Duration(req.ExpiryDurationInSeconds) * time.Second)
	}
	return &pf.GenerateEnvelopeResponse{SignatureEnvelope: envb.Build(spec), SignatureEnvelopeType: req.SignatureEnvelopeType}, nil
}
func (p *honestPlugin) VerifySignature(ctx context.Context, req *pf.VerifySignatureRequest) (*pf.VerifySignatureResponse, error) {
	return nil, errors.New("not a verification plugin")
}

// ---- scripted in-memory repository ----

type memRepo struct {
	desc   ocispec.Descriptor
	retain bool // Resolve hands out the descriptor it keeps, annotation map included
	sigs []struct {
		mt   string
		blob []byte
		ann  map[string]string
	}
}

func (r *memRepo) Resolve(ctx context.Context, ref string) (ocispec.Descriptor, error) {
	d := r.desc
	if d.Annotations != nil && !r.retain { // hand out a private copy: sharing is C11's subject, not C07's
		d.Annotations = map[string]string{}
		for k, v := range r.desc.Annotations {
			d.Annotations[k] = v
		}
	}
	return d, nil
}
func (r *memRepo) ListSignatures(ctx context.Context, d ocispec.Descriptor, fn func([]ocispec.Descriptor) error) error {
	var page []ocispec.Descriptor
	for i := range r.sigs {
		page = append(page, ocispec.Descriptor{MediaType: ocispec.MediaTypeImageManifest, Digest: digest.FromString(fmt.Sprint("sig", i)), Size: int64(i)})
	}
	return fn(page)
}
func (r *memRepo) FetchSignatureBlob(ctx context.Context, d ocispec.Descriptor) ([]byte, ocispec.Descriptor, error) {
	s := r.sigs[int(d.Size)]
	return s.blob, ocispec.Descriptor{MediaType: s.mt, Digest: digest.FromBytes(s.blob), Size: int64(len(s.blob))}, nil
}
func (r *memRepo) PushSignature(ctx context.Context, mediaType string, blob []byte, subject ocispec.Descriptor, annotations map[string]string) (ocispec.Descriptor, ocispec.Descriptor, error) {
	r.sigs = append(r.sigs, struct {
		mt   string
		blob []byte
		ann  map[string]string
	}{mediaType, blob, annotations})
	return ocispec.Descriptor{MediaType: mediaType, Digest: digest.FromBytes(blob), Size: int64(len(blob))},
		ocispec.Descriptor{MediaType: ocispec.MediaTypeImageManifest, Digest: digest.FromString(fmt.Sprint("sig", len(r.sigs)-1)), Size: int64(len(r.sigs) - 1)}, nil
}

var (
	strangerOnce sync.Once
	stranger     *pki.Chain
)

func strangerChain() *pki.Chain {
	strangerOnce.Do(func() { stranger = pki.NewChain(pki.ChainOpts{Intermediates: 1, Name: "c07 stranger"}) })
	return stranger
}

// ---- chains ----

var (
	cmu    sync.Mutex
	chains = map[string]*pki.Chain{}
)

func chainFor(keySpec string) *pki.Chain {
	cmu.Lock()
	defer cmu.Unlock()
	if c, ok := chains[keySpec]; ok {
		return c
	}
	c := pki.NewChain(pki.ChainOpts{Intermediates: 1, Name: "c07 " + keySpec, LeafKey: pki.Key(keySpec, 0), LeafSubject: pki.DefaultLeafSubject("c07 " + keySpec)})
	chains[keySpec] = c
	return c
}

var hashOf = map[string]string{"EC-256": "sha256", "EC-384": "sha384", "EC-521": "sha512", "RSA-2048": "sha256", "RSA-3072": "sha384", "RSA-4096": "sha512"}

// ---- own reading of the envelope times ----

func envelopeTimes(format string, env []byte) (signing, expiry time.Time, err error) {
	if format == envb.MTJWS {
		p, e := envb.SplitJWS(env)
		if e != nil {
			return signing, expiry, e
		}
		raw, e := base64.RawURLEncoding.DecodeString(p.Protected)
		if e != nil {
			return signing, expiry, e
		}
		var h map[string]any
		if e := json.Unmarshal(raw, &h); e != nil {
			return signing, expiry, e
		}
		if s, ok := h["io.cncf.notary.signingTime"].(string); ok {
			signing, err = time.Parse(time.RFC3339, s)
			if err != nil {
				return
			}
		}
		if s, ok := h["io.cncf.notary.expiry"].(string); ok {
			expiry, err = time.Parse(time.RFC3339, s)
		}
		return
	}
	m, e := envb.SplitCOSE(env)
	if e != nil {
		return signing, expiry, e
	}
	var h map[any]any
	if e := cbor.Unmarshal(m.Protected, &h); e != nil {
		return signing, expiry, e
	}
	conv := func(v any) (time.Time, error) {
		switch x := v.(type) {
		case nil:
			return time.Time{}, nil
		case time.Time:
			return x, nil
		case cbor.Tag:
			switch n := x.Content.(type) {
			case uint64:
				return time.Unix(int64(n), 0), nil
			case int64:
				return time.Unix(n, 0), nil
			}
		case uint64:
			return time.Unix(int64(x), 0), nil
		case int64:
			return time.Unix(x, 0), nil
		}
		return time.Time{}, fmt.Errorf("unexpected time encoding %T", v)
	}
	if signing, err = conv(h["io.cncf.notary.signingTime"]); err != nil {
		return
	}
	expiry, err = conv(h["io.cncf.notary.expiry"])
	return
}

func blobBytes(n int, seed byte) []byte {
	b := make([]byte, n)
	for i := range b {
		b[i] = byte(i*7) ^ seed
	}
	return b
}

func eqMap(a, b map[string]string) bool {
	if len(a) != len(b) {
		return false
	}
	for k, v := range a {
		if w, ok := b[k]; !ok || w != v {
			return false
		}
	}
	return true
}

// roundTrip returns (finding key, message).
func roundTrip(c *Case) (string, string) {
	ctx := context.Background()
	if c.EmptyAnn && c.Kind == "oci" && len(c.Desc.Annotations) == 0 {
		c.Desc.Annotations = map[string]string{}
	}
	ch := chainFor(c.KeySpec)
	var sgn interface {
		notation.Signer
		notation.BlobSigner
	}
	switch c.Signer {
	case "local":
		s, err := signer.NewGenericSigner(ch.Leaf().Key, ch.X509())
		if err != nil {
			return "harness", "NewGenericSigner: " + err.Error()
		}
		sgn = s
	default:
		caps := []pf.Capability{pf.CapabilitySignatureGenerator}
		if c.Signer == "plugin-envelope" {
			caps = []pf.Capability{pf.CapabilityEnvelopeGenerator}
		}
		hp := &honestPlugin{caps: caps, chain: ch, keySpec: c.KeySpec}
		if cmd, code, ok := strings.Cut(c.Transient, ":"); ok {
			hp.failOnce = map[string]string{cmd: code}
		}
		s, err := signer.NewPluginSigner(hp, "key-1", nil)
		if err != nil {
			return "harness", "NewPluginSigner: " + err.Error()
		}
		sgn = s
	}
	sopts := notation.SignerSignOptions{SignatureMediaType: c.Format, ExpiryDuration: time.Duration(c.ExpirySecs) * time.Second, SigningAgent: c.Agent}
	if c.OtherKeyFirst != "" && c.Signer != "local" {
		// not judged: an earlier, ordinary use of the same signer object with another key
		pre := sopts
		pre.PluginConfig = map[string]string{"verif.keySpec": c.OtherKeyFirst}
		if c.Kind == "oci" {
			sgn.Sign(ctx, kit.Artifact("c07 earlier artifact"), pre)
		} else {
			notation.SignBlob(ctx, sgn, bytes.NewReader([]byte("c07 earlier blob")), notation.SignBlobOptions{SignerSignOptions: pre, ContentMediaType: "text/plain"})
		}
	}
	// policy that trusts the signer; short expiries are only logged so that timing cannot decide
	target := map[string]string{"authenticity": "enforce", "authenticTimestamp": "enforce", "expiry": "enforce", "revocation": "enforce"}
	if c.ExpirySecs != 0 && c.ExpirySecs < 30 {
		target["expiry"] = "log"
	}
	// a signature that expires in 30 s or later verifies when it is verified right away: the
	// harness's own clock decides whether "right away" held (a stalled machine is not a finding)
	began := time.Now()
	tooLate := func() bool { return c.ExpirySecs != 0 && time.Since(began) > time.Duration(c.ExpirySecs)*time.Second-5*time.Second }
	sv := kit.LevelFor("strict", target, false).SV("")
	ids := []string{"*"}
	if c.Identity == "pinned" {
		ids = []string{"x509.subject:C=US,ST=WA,O=verif,CN=c07 " + c.KeySpec}
	}
	ts := mocks.NewTrustStore().Put("ca", "x", ch.Root().Cert)
	if c.TrustRotated {
		ts.Put("ca", "x", strangerChain().Root().Cert)
	}
	// rotate: the long-lived verifier first serves a signature of the earlier trusted signer, then
	// the store's content changes
	rotate := func(v interface {
		notation.Verifier
		notation.BlobVerifier
	}) {
		if !c.TrustRotated {
			return
		}
		st := strangerChain()
		d := kit.Artifact("c07 earlier artifact of the other signer")
		senv := envb.Build(envb.Spec{Format: c.Format, Payload: envb.PayloadFor(d.MediaType, d.Digest.String(), d.Size, nil), ContentType: envb.PayloadType,
			Scheme: envb.SchemeX509, SigningTime: time.Now().Add(-time.Minute), Chain: st.X509(), Key: st.Leaf().Key})
		if c.Kind == "oci" {
			v.Verify(ctx, d, senv, notation.VerifierVerifyOptions{ArtifactReference: kit.Reference(d), SignatureMediaType: c.Format})
		} else {
			v.VerifyBlob(ctx, func(digest.Algorithm) (ocispec.Descriptor, error) { return d, nil }, senv, notation.BlobVerifierVerifyOptions{SignatureMediaType: c.Format})
		}
		ts.Put("ca", "x", ch.Root().Cert)
	}
	vopts := kit.Options()
	site := c.Kind + ":" + c.Signer + ":" + c.Format
	var env []byte
	var payloadWant struct {
		mediaType, digest string
		size              int64
		ann               map[string]string
	}
	var outcome *notation.VerificationOutcome
	if c.Kind == "oci" {
		repo := &memRepo{desc: c.Desc}
		ref := "registry.example/c07/repo@" + c.Desc.Digest.String()
		pristineAnn := map[string]string{}
		for k, v := range c.Desc.Annotations {
			pristineAnn[k] = v
		}
		if c.SignedBefore {
			repo.retain = true
			repo.desc.Annotations = map[string]string{}
			for k, v := range pristineAnn {
				repo.desc.Annotations[k] = v
			}
			if _, _, err := notation.SignOCI(ctx, sgn, repo, notation.SignOptions{SignerSignOptions: sopts, ArtifactReference: ref, UserMetadata: map[string]string{"earlier-build": "7"}}); err == nil {
				repo.sigs = nil
			} else if len(repo.sigs) != 0 {
				return "C07:pushed-although-signing-failed:" + site, fmt.Sprintf("the earlier SignOCI failed (%v) yet %d signatures were pushed", err, len(repo.sigs))
			}
		}
		artDesc, _, err := notation.SignOCI(ctx, sgn, repo, notation.SignOptions{SignerSignOptions: sopts, ArtifactReference: ref, UserMetadata: c.Metadata})
		if err != nil && c.Transient != "" && c.Signer != "local" {
			if len(repo.sigs) != 0 {
				return "C07:pushed-although-signing-failed:" + site, fmt.Sprintf("SignOCI failed (%v) yet %d signatures were pushed", err, len(repo.sigs))
			}
			return "", "" // giving up after the plugin's transient error is legal
		}
		if err != nil {
			return "C07:sign-failed:" + site, fmt.Sprintf("SignOCI failed for a legal request: %v", err)
		}
		if artDesc.Digest != c.Desc.Digest || len(repo.sigs) != 1 {
			return "C07:sign-result:" + site, fmt.Sprintf("SignOCI returned %v and pushed %d signatures", artDesc.Digest, len(repo.sigs))
		}
		env = repo.sigs[0].blob
		if c.StrangerFirst {
			other := envb.MTJWS
			if c.Format == envb.MTJWS {
				other = envb.MTCOSE
			}
			st := strangerChain()
			senv := envb.Build(envb.Spec{Format: other, Payload: envb.PayloadFor(c.Desc.MediaType, c.Desc.Digest.String(), c.Desc.Size, nil), ContentType: envb.PayloadType,
				Scheme: envb.SchemeX509, SigningTime: time.Now().Add(-time.Minute), Chain: st.X509(), Key: st.Leaf().Key})
			mine := repo.sigs[0]
			repo.sigs = repo.sigs[:0]
			repo.PushSignature(ctx, other, senv, c.Desc, nil)
			repo.sigs = append(repo.sigs, mine)
		}
		if mine := repo.sigs[len(repo.sigs)-1]; mine.mt != c.Format {
			return "C07:pushed-media-type:" + site, fmt.Sprintf("signature pushed as %q, requested %q", mine.mt, c.Format)
		}
		vopts.OCITrustPolicy = kit.OCIDoc("p", sv, []string{"ca:x"}, ids)
		v, err := verifier.NewVerifierWithOptions(ts, vopts)
		if err != nil {
			return "harness", "verifier: " + err.Error()
		}
		rotate(v)
		got, outs, err := notation.Verify(ctx, v, repo, notation.VerifyOptions{ArtifactReference: ref, MaxSignatureAttempts: 5, UserMetadata: c.Metadata})
		if err != nil && tooLate() {
			return "", ""
		}
		if err != nil {
			return "C07:verify-failed:" + site, fmt.Sprintf("what the library signed does not verify: %v", err)
		}
		if got.Digest != c.Desc.Digest || got.Size != c.Desc.Size || got.MediaType != c.Desc.MediaType || len(outs) != 1 {
			return "C07:verify-result:" + site, fmt.Sprintf("Verify returned %+v with %d outcomes", got, len(outs))
		}
		outcome = outs[0]
		payloadWant.mediaType, payloadWant.digest, payloadWant.size = c.Desc.MediaType, c.Desc.Digest.String(), c.Desc.Size
		payloadWant.ann = map[string]string{}
		for k, v := range pristineAnn {
			payloadWant.ann[k] = v
		}
		for k, v := range c.Metadata {
			payloadWant.ann[k] = v
		}
	} else {
		blob := blobBytes(c.BlobLen, c.BlobSeed)
		var err error
		if c.FailFirst == "sign" {
			if _, _, ferr := notation.SignBlob(ctx, sgn, &failingReader{data: append([]byte("prefix that must not leak into the next digest"), blob...)}, notation.SignBlobOptions{SignerSignOptions: sopts, ContentMediaType: c.MediaType}); ferr == nil {
				return "C07:signed-unreadable-blob:" + site, "SignBlob returned a signature although reading the blob failed in mid-stream: the signature cannot be for the blob"
			}
		}
		env, _, err = notation.SignBlob(ctx, sgn, reader(c.SignReader, blob), notation.SignBlobOptions{SignerSignOptions: sopts, ContentMediaType: c.MediaType, UserMetadata: c.Metadata})
		if err != nil && c.Transient != "" && c.Signer != "local" {
			return "", "" // giving up after the plugin's transient error is legal
		}
		if err != nil {
			return "C07:sign-failed:" + site, fmt.Sprintf("SignBlob failed for a legal request: %v", err)
		}
		vopts.BlobTrustPolicy = kit.BlobDoc("", sv, []string{"ca:x"}, ids)
		v, err := verifier.NewVerifierWithOptions(ts, vopts)
		if err != nil {
			return "harness", "verifier: " + err.Error()
		}
		rotate(v)
		if c.FailFirst == "verify" {
			if _, _, ferr := notation.VerifyBlob(ctx, v, &failingReader{data: append([]byte("prefix that must not leak into the next digest"), blob...)}, env, notation.VerifyBlobOptions{
				BlobVerifierVerifyOptions: notation.BlobVerifierVerifyOptions{SignatureMediaType: c.Format}, ContentMediaType: c.MediaType}); ferr == nil {
				return "C07:verified-unreadable-blob:" + site, "VerifyBlob succeeded although reading the blob failed in mid-stream"
			}
		}
		statedType, statedMeta := c.MediaType, c.Metadata
		switch c.VerifyOmit {
		case "media-type":
			statedType = ""
		case "metadata":
			statedMeta = nil
		case "both":
			statedType, statedMeta = "", nil
		case "metadata-subset":
			statedMeta = map[string]string{}
			var ks []string
			for k := range c.Metadata {
				ks = append(ks, k)
			}
			sort.Strings(ks)
			for _, k := range ks[:len(ks)/2] {
				statedMeta[k] = c.Metadata[k]
			}
		}
		got, out, err := notation.VerifyBlob(ctx, v, reader(c.VerReader, blob), env, notation.VerifyBlobOptions{
			BlobVerifierVerifyOptions: notation.BlobVerifierVerifyOptions{SignatureMediaType: c.Format, UserMetadata: statedMeta}, ContentMediaType: statedType})
		if err != nil && tooLate() {
			return "", ""
		}
		if err != nil {
			return "C07:verify-failed:" + site, fmt.Sprintf("what the library signed does not verify: %v", err)
		}
		outcome = out
		ownDigest := kit.OwnDigest(hashOf[c.KeySpec], blob)
		payloadWant.mediaType, payloadWant.digest, payloadWant.size = c.MediaType, ownDigest, int64(len(blob))
		payloadWant.ann = map[string]string{}
		for k, v := range c.Metadata {
			payloadWant.ann[k] = v
		}
		// successful blob verification returns the descriptor of the blob that was verified
		if got.Digest.String() != ownDigest || got.Size != int64(len(blob)) || got.MediaType != c.MediaType || !eqMap(got.Annotations, payloadWant.ann) {
			return "C07:verifyblob-returned-descriptor", fmt.Sprintf("VerifyBlob returned descriptor %+v; the verified blob is (%s, %s, %d, %v)", got, c.MediaType, ownDigest, len(blob), payloadWant.ann)
		}
	}
	if outcome == nil {
		return "C07:nil-outcome:" + site, "successful verification without outcome"
	}
	// the verified payload, decoded by the harness
	ver, err := envb.IndependentVerify(c.Format, env)
	if err != nil {
		return "C07:independent-verifier-rejects:" + site, fmt.Sprintf("the produced envelope is not valid for the harness's own verifier: %v", err)
	}
	tgt, err := envb.DecodeTarget(ver.Payload)
	if err != nil || !tgt.HasTarget {
		return "C07:payload-shape:" + site, fmt.Sprintf("payload has no target descriptor: %s", ver.Payload)
	}
	if tgt.MediaType != payloadWant.mediaType || tgt.Digest != payloadWant.digest || tgt.Size.String() != fmt.Sprint(payloadWant.size) {
		return "C07:payload-descriptor:" + site, fmt.Sprintf("payload target (%s %s %s) differs from what was signed (%s %s %d)", tgt.MediaType, tgt.Digest, tgt.Size, payloadWant.mediaType, payloadWant.digest, payloadWant.size)
	}
	if !eqMap(tgt.Annotations, payloadWant.ann) {
		return "C07:payload-annotations:" + site, fmt.Sprintf("payload annotations %v differ from the signed annotations %v", tgt.Annotations, payloadWant.ann)
	}
	allowed := map[string]bool{"mediaType": true, "digest": true, "size": true, "annotations": true}
	for _, k := range tgt.Keys {
		if !allowed[k] {
			return "C07:payload-extra-field:" + site, fmt.Sprintf("payload descriptor carries %q; it must be reduced to media type, digest, size and annotations", k)
		}
	}
	if ver.ContentType != envb.PayloadType {
		return "C07:payload-type:" + site, "payload content type is " + ver.ContentType
	}
	// expiry = signing time + duration
	st, et, err := envelopeTimes(c.Format, env)
	if err != nil {
		return "harness", "cannot read envelope times: " + err.Error()
	}
	if c.ExpirySecs == 0 {
		if !et.IsZero() {
			return "C07:expiry-present-without-duration:" + site, fmt.Sprintf("no expiry requested but envelope expires at %v", et)
		}
	} else if et.IsZero() || et.Sub(st) != time.Duration(c.ExpirySecs)*time.Second {
		return "C07:expiry-arithmetic:" + site, fmt.Sprintf("signing time %v, expiry %v, requested duration %ds", st, et, c.ExpirySecs)
	}
	// user metadata read back
	um, err := outcome.UserMetadata()
	if err != nil {
		return "C07:user-metadata-error:" + site, err.Error()
	}
	if um == nil {
		return "C07:user-metadata-nil:" + site, "UserMetadata() returned nil"
	}
	if !eqMap(um, payloadWant.ann) {
		return "C07:user-metadata-mismatch:" + site, fmt.Sprintf("UserMetadata() = %v, signed annotations %v", um, payloadWant.ann)
	}
	return "", ""
}

var metaKeys = []string{"env", "build.id", "owner", "io.example/key", "ключ", "k with space", "x", " build id ", "x ", " x", "\towner", " ",
	// keys that merely contain, or nearly are, the reserved prefix: legal user metadata
	"com.example.mirror-of.io.cncf.notary.x509chain", "xio.cncf.notary.verified", "io.cncf.notar", "IO.CNCF.NOTARY.x", "io.cncf"}
var metaVals = []string{"prod", "", "42", "a=b,c", "значение", strings.Repeat("v", 300), "{\"json\":true}", "line\nbreak"}

func drawCase(rt *rapid.T) *Case {
	c := &Case{
		KeySpec:  rp.Pick(rt, "keySpec", "EC-256", "EC-256", "EC-256", "EC-384", "EC-384", "EC-521", "EC-521", "RSA-2048", "RSA-2048", "RSA-3072", "RSA-4096"),
		Format:   rp.Pick(rt, "format", envb.MTJWS, envb.MTCOSE),
		Signer:   rp.Pick(rt, "signer", "local", "local", "plugin-raw", "plugin-envelope"),
		Kind:     rp.Pick(rt, "kind", "oci", "blob"),
		Agent:    rp.Pick(rt, "agent", "", "verif-agent/1.0", "агент 2"),
		Identity: rp.Pick(rt, "identity", "wildcard", "pinned"),
	}
	if c.Signer != "local" && rapid.IntRange(0, 2).Draw(rt, "otherKeyFirst") == 0 {
		c.OtherKeyFirst = rp.Pick(rt, "otherKeySpec", "EC-256", "EC-384", "EC-521", "RSA-2048", "RSA-3072")
		if hashOf[c.OtherKeyFirst] == hashOf[c.KeySpec] {
			c.OtherKeyFirst = map[string]string{"sha256": "EC-384", "sha384": "EC-521", "sha512": "EC-256"}[hashOf[c.KeySpec]]
		}
	}
	if c.Signer != "local" && c.OtherKeyFirst == "" && rapid.IntRange(0, 3).Draw(rt, "transient") == 0 {
		c.Transient = rp.Pick(rt, "transientCmd", "metadata", "describe", "generate", "generate") + ":" + rp.Pick(rt, "transientCode", "THROTTLED", "TIMEOUT")
	}
	c.TrustRotated = rapid.IntRange(0, 3).Draw(rt, "trustRotated") == 0
	c.ExpirySecs = rp.Pick(rt, "expiry", int64(0), 0, 1, 30, 30, 120, 299, 301, 3600, 86400, 10*365*86400, int64(rapid.IntRange(600, 1000000).Draw(rt, "expiryRandom")))
	n := rapid.IntRange(0, 3).Draw(rt, "metadataCount")
	if n > 0 || rapid.Bool().Draw(rt, "emptyNonNilMetadata") {
		c.Metadata = map[string]string{}
	}
	for i := 0; i < n; i++ {
		c.Metadata[rp.Pick(rt, "mk", metaKeys...)] = rp.Pick(rt, "mv", metaVals...)
	}
	if c.Kind == "oci" {
		seed := rapid.StringMatching("[a-z]{1,6}").Draw(rt, "artifactSeed")
		d := kit.Artifact(seed)
		d.MediaType = rp.Pick(rt, "descMediaType", ocispec.MediaTypeImageManifest, ocispec.MediaTypeImageIndex, "application/vnd.example.custom+json")
		maxSize := int64(1) << 53
		if c.Format == envb.MTCOSE && rapid.IntRange(0, 9).Draw(rt, "hugeSize") == 0 {
			maxSize = 1<<63 - 1
		}
		d.Size = rp.Pick(rt, "size", int64(0), 1, 528, 1<<31, 1<<32+1, maxSize-1, maxSize)
		switch rp.Pick(rt, "annotations", "nil", "two", "two", "empty") {
		case "two":
			d.Annotations = map[string]string{"org.opencontainers.image.title": "t", "own": rp.Pick(rt, "ownAnn", "a", "")}
		case "empty":
			d.Annotations = map[string]string{}
			c.EmptyAnn = true
		}
		if rapid.IntRange(0, 2).Draw(rt, "urls") == 0 {
			d.URLs = []string{"https://example.invalid/blob"}
		}
		if rapid.IntRange(0, 2).Draw(rt, "data") == 0 {
			d.Data = []byte("embedded")
		}
		if rapid.IntRange(0, 2).Draw(rt, "platform") == 0 {
			d.Platform = &ocispec.Platform{Architecture: "amd64", OS: "linux"}
		}
		if rapid.IntRange(0, 2).Draw(rt, "artifactType") == 0 {
			d.ArtifactType = "application/vnd.example.artifact"
		}
		c.Desc = d
		c.StrangerFirst = rapid.IntRange(0, 3).Draw(rt, "strangerFirst") == 0
		c.SignedBefore = rapid.IntRange(0, 3).Draw(rt, "signedBefore") == 0
		for k := range d.Annotations { // user metadata must not collide with the artifact's annotations
			delete(c.Metadata, k)
		}
	} else {
		c.BlobLen = rp.Pick(rt, "blobLen", 0, 1, 4095, 4096, 4097, rapid.IntRange(2, 70000).Draw(rt, "blobLenRandom"))
		if rapid.IntRange(0, 60).Draw(rt, "bigBlob") == 0 {
			c.BlobLen = 1<<20 + 1
		}
		c.BlobSeed = byte(rapid.IntRange(0, 255).Draw(rt, "blobSeed"))
		c.FailFirst = rp.Pick(rt, "failFirst", "", "", "", "", "sign", "verify")
		c.SignReader = rp.Pick(rt, "signReader", readerKinds...)
		c.VerReader = rp.Pick(rt, "verifyReader", readerKinds...)
		if c.BlobLen > 100000 && (strings.Contains(c.SignReader, "one-byte") || strings.Contains(c.VerReader, "one-byte")) {
			c.SignReader, c.VerReader = "data-with-eof", "half" // one-byte readers on a megabyte are only slow
		}
		c.VerifyOmit = rp.Pick(rt, "verifyOmit", "", "", "", "media-type", "metadata", "both", "metadata-subset")
		c.MediaType = rp.Pick(rt, "mime", "application/octet-stream", "text/plain; charset=utf-8", "Application/JSON", "application/vnd.example+json;version=1", "x/y")
	}
	return c
}

func TestC07_RoundTrip(t *testing.T) {
	rec := stats.New(t, "C07", rule)
	rp.Check(t, 2400, 400000, func(rt *rapid.T) {
		c := drawCase(rt)
		var mk []string
		for k, v := range c.Metadata {
			mk = append(mk, k+"="+v)
		}
		sort.Strings(mk)
		cl := []string{"kind=" + c.Kind, "signer=" + c.Signer, "format=" + map[string]string{envb.MTJWS: "jws", envb.MTCOSE: "cose"}[c.Format], "keyspec=" + c.KeySpec,
			fmt.Sprintf("metadata=%d", len(c.Metadata)), "identity=" + c.Identity}
		switch {
		case c.ExpirySecs == 0:
			cl = append(cl, "expiry=none")
		case c.ExpirySecs < 600:
			cl = append(cl, "expiry=short")
		default:
			cl = append(cl, "expiry=long")
		}
		if c.Kind == "oci" && (len(c.Desc.URLs) > 0 || c.Desc.Data != nil || c.Desc.Platform != nil || c.Desc.ArtifactType != "") {
			cl = append(cl, "descriptor-extra-fields")
		}
		if c.Kind == "oci" && len(c.Desc.Annotations) > 0 {
			cl = append(cl, "artifact-annotations")
		}
		if c.SignedBefore {
			cl = append(cl, "same-artifact-signed-before-with-other-metadata")
		}
		if c.StrangerFirst {
			cl = append(cl, "untrusted-signature-of-other-format-listed-first")
		}
		if c.EmptyAnn {
			cl = append(cl, "artifact-annotations-empty-map")
		}
		if c.OtherKeyFirst != "" {
			cl = append(cl, "signer-reused-after-other-key")
		}
		if c.Kind == "blob" && c.VerifyOmit != "" {
			cl = append(cl, "verify-omits="+c.VerifyOmit)
		}
		if c.TrustRotated {
			cl = append(cl, "trust-store-content-rotated-on-long-lived-verifier")
		}
		if c.Transient != "" {
			cl = append(cl, "plugin-transient-error", "plugin-transient="+c.Transient)
			if c.Kind == "blob" && strings.HasPrefix(c.Transient, "generate") {
				cl = append(cl, "plugin-transient-error-after-blob-was-read")
			}
		}
		if c.Kind == "oci" && c.Desc.Size > 1<<53 {
			cl = append(cl, "size>2^53")
		}
		if c.Kind == "blob" {
			cl = append(cl, "sign-reader="+c.SignReader, "verify-reader="+c.VerReader)
			if c.FailFirst != "" {
				cl = append(cl, "after-failed-read")
			}
		}
		rec.Case(cl, true, stats.Fingerprint(c.KeySpec, c.Format, c.Signer, c.Kind, fmt.Sprintf("%+v", c.Desc), c.EmptyAnn, c.BlobLen, c.BlobSeed, c.MediaType, strings.Join(mk, ";"), c.ExpirySecs, c.Identity, c.SignReader, c.VerReader, c.FailFirst, c.VerifyOmit, c.OtherKeyFirst, c.StrangerFirst, c.SignedBefore, c.Transient, c.TrustRotated), func() any { return c })
		key, msg := roundTrip(c)
		if key == "harness" {
			rt.Fatalf("harness: %s", msg)
		}
		if key != "" {
			rec.Failf(rt, key, c, "%s", msg)
		}
	})
}

// TestC07_JWSHugeSize keeps exercising the one known limit (finding F13): a JWS payload size
// above 2^53 does not survive signing in the pinned notation-core-go.
func TestC07_JWSHugeSize(t *testing.T) {
	rec := stats.New(t, "C07", rule)
	if s, _ := stats.Shard(); s != 0 {
		return
	}
	for _, size := range []int64{1<<53 + 1, 1<<62 + 3, 1<<63 - 1} {
		d := kit.Artifact("huge")
		d.Size = size
		c := &Case{KeySpec: "EC-256", Format: envb.MTJWS, Signer: "local", Kind: "oci", Desc: d, Identity: "wildcard"}
		rec.Case([]string{"jws-size>2^53"}, true, stats.Fingerprint("huge", size), func() any { return c })
		key, msg := roundTrip(c)
		if key == "harness" {
			t.Fatalf("harness: %s", msg)
		}
		if key != "" {
			rec.Failf(t, "C07:jws:size>2^53", c, "%s: %s", key, msg)
		}
	}
}

var _ = reflect.DeepEqual
