package c07

import (
	"context"
	"fmt"
	"strings"
	"testing"

	"github.com/notaryproject/notation-go"
	"github.com/notaryproject/notation-go/registry"
	"github.com/notaryproject/notation-go/signer"
	"github.com/notaryproject/notation-go/verifier"
	"github.com/opencontainers/go-digest"
	ocispec "github.com/opencontainers/image-spec/specs-go/v1"
	"oras.land/oras-go/v2/content/memory"

	"bytes"

	"verifharness/internal/envb"
	"verifharness/internal/kit"
	"verifharness/internal/mocks"
	"verifharness/internal/stats"
)

// TestC07_LargeMetadataThroughRegistry: "any legal user metadata" has no size clause of its own.
// An artifact in a store behind the library's own repository client (registry.NewRepository over an
// in-memory oras store) is signed with 16 B, 1 MiB and 5 MiB of user metadata and verified through
// the same client; what was signed verifies and the metadata is read back. (The envelope stays far
// below the 32 MiB cap on signature blobs.) Runs in one shard.
func TestC07_LargeMetadataThroughRegistry(t *testing.T) {
	rec := stats.New(t, "C07", rule)
	if s, n := stats.Shard(); s != 3%n {
		t.Skip("runs in one shard")
	}
	ctx := context.Background()
	ch := chainFor("EC-256")
	for i, size := range []int{16, 1 << 20, 5 << 20} {
		for _, format := range envb.Formats {
			name := fmt.Sprintf("metadata=%dKiB:%s", size>>10, format)
			rec.Case([]string{"large-metadata-through-registry-client", fmt.Sprintf("metadata-bytes=%d", size)}, true, stats.Fingerprint("large-metadata", size, format), func() any { return name })
			store := memory.New()
			manifest := []byte(fmt.Sprintf(`{"schemaVersion":2,"mediaType":"application/vnd.oci.image.manifest.v1+json","config":{"mediaType":"application/vnd.oci.empty.v1+json","digest":"sha256:44136fa355b3678a1146ad16f7e8649e94fb4fc21fe77e8310c060f61caaff8a","size":2},"layers":[],"annotations":{"n":"%d"}}`, i))
			desc := ocispec.Descriptor{MediaType: ocispec.MediaTypeImageManifest, Digest: digest.FromBytes(manifest), Size: int64(len(manifest))}
			store.Push(ctx, ocispec.DescriptorEmptyJSON, bytes.NewReader([]byte("{}")))
			if err := store.Push(ctx, desc, bytes.NewReader(manifest)); err != nil {
				t.Fatalf("harness: %v", err)
			}
			if err := store.Tag(ctx, desc, desc.Digest.String()); err != nil { // the in-memory store resolves tags only
				t.Fatalf("harness: %v", err)
			}
			repo := registry.NewRepository(store)
			sgn, err := signer.NewGenericSigner(ch.Leaf().Key, ch.X509())
			if err != nil {
				t.Fatalf("harness: %v", err)
			}
			meta := map[string]string{"notes": strings.Repeat("m", size), "build": "42"}
			ref := "registry.example/c07/big@" + desc.Digest.String()
			if _, _, err := notation.SignOCI(ctx, sgn, repo, notation.SignOptions{SignerSignOptions: notation.SignerSignOptions{SignatureMediaType: format}, ArtifactReference: ref, UserMetadata: meta}); err != nil {
				rec.Failf(t, "C07:sign-failed:registry-client", name, "SignOCI with %d bytes of user metadata failed: %v", size, err)
				continue
			}
			opts := kit.Options()
			opts.OCITrustPolicy = kit.OCIDoc("p", kit.Level{Base: "strict"}.SV(""), []string{"ca:x"}, []string{"*"})
			v, err := verifier.NewVerifierWithOptions(mocks.NewTrustStore().Put("ca", "x", ch.Root().Cert), opts)
			if err != nil {
				t.Fatalf("harness: %v", err)
			}
			_, outs, err := notation.Verify(ctx, v, repo, notation.VerifyOptions{ArtifactReference: ref, MaxSignatureAttempts: 3, UserMetadata: map[string]string{"build": "42"}})
			if err != nil {
				rec.Failf(t, "C07:verify-failed:registry-client", name, "what the library signed (with %d bytes of user metadata) and stored through its own repository client does not verify through it: %v", size, err)
				continue
			}
			um, err := outs[0].UserMetadata()
			if err != nil || um["notes"] != meta["notes"] || um["build"] != "42" || len(um) != 2 {
				rec.Failf(t, "C07:user-metadata-mismatch:registry-client", name, "metadata read back: %d keys, notes has %d bytes (err=%v)", len(um), len(um["notes"]), err)
			}
		}
	}
}
