package c07

import (
	"context"
	"fmt"
	"runtime"
	"sync"
	"testing"

	"github.com/notaryproject/notation-go"
	"github.com/notaryproject/notation-go/log"
	"github.com/notaryproject/notation-go/signer"
	"github.com/notaryproject/notation-go/verifier"
	pf "github.com/notaryproject/notation-plugin-framework-go/plugin"
	ocispec "github.com/opencontainers/image-spec/specs-go/v1"

	"verifharness/internal/envb"
	"verifharness/internal/kit"
	"verifharness/internal/mocks"
	"verifharness/internal/stats"
)

// yieldLogger hands the processor to another goroutine at every log call of the library: the
// context logger is the seam through which the harness owns the schedule of overlapping calls.
type yieldLogger struct{ log.Logger }

func (yieldLogger) Debug(args ...any)                 { runtime.Gosched() }
func (yieldLogger) Debugf(format string, args ...any) { runtime.Gosched() }
func (yieldLogger) Debugln(args ...any)               { runtime.Gosched() }
func (yieldLogger) Info(args ...any)                  { runtime.Gosched() }
func (yieldLogger) Infof(format string, args ...any)  { runtime.Gosched() }
func (yieldLogger) Infoln(args ...any)                { runtime.Gosched() }

// TestC07_OverlappingSigns: the round trip holds for every call, also when calls on ONE signer
// object overlap. Goroutines sign descriptors that differ in digest, size and annotations (same
// and different payload lengths) through one signer - local, plugin signature generator, plugin
// envelope generator; JWS and COSE - on one and on several processors, with a context logger
// and a plugin that yield the processor inside the call. Every returned signature must verify
// under a policy trusting the signer and its verified payload must be the descriptor THAT call
// was given. Runs in one shard.
func TestC07_OverlappingSigns(t *testing.T) {
	rec := stats.New(t, "C07", rule)
	if s, n := stats.Shard(); s != 3%n {
		t.Skip("runs in one shard")
	}
	rounds := 6
	if stats.Tier() == "thorough" {
		rounds = 120
	}
	const workers = 8
	ch := chainFor("EC-256")
	ts := mocks.NewTrustStore().Put("ca", "x", ch.Root().Cert)
	vopts := kit.Options()
	vopts.OCITrustPolicy = kit.OCIDoc("p", kit.Level{Base: "strict"}.SV(""), []string{"ca:x"}, []string{"*"})
	v, err := verifier.NewVerifierWithOptions(ts, vopts)
	if err != nil {
		t.Fatalf("harness: %v", err)
	}
	total := 0
	for _, procs := range []int{1, 4} {
		for _, kind := range []string{"local", "plugin-raw", "plugin-envelope"} {
			for _, format := range []string{envb.MTJWS, envb.MTCOSE} {
				var sgn notation.Signer
				switch kind {
				case "local":
					s, err := signer.NewGenericSigner(ch.Leaf().Key, ch.X509())
					if err != nil {
						t.Fatalf("harness: %v", err)
					}
					sgn = s
				default:
					caps := []pf.Capability{pf.CapabilitySignatureGenerator}
					if kind == "plugin-envelope" {
						caps = []pf.Capability{pf.CapabilityEnvelopeGenerator}
					}
					s, err := signer.NewPluginSigner(&honestPlugin{caps: caps, chain: ch, keySpec: "EC-256", yield: runtime.Gosched}, "key-1", nil)
					if err != nil {
						t.Fatalf("harness: %v", err)
					}
					sgn = s
				}
				type res struct {
					desc ocispec.Descriptor
					env  []byte
					err  error
				}
				results := make([][]res, workers)
				prev := runtime.GOMAXPROCS(procs)
				ctx := log.WithLogger(context.Background(), yieldLogger{log.Discard})
				var wg sync.WaitGroup
				for w := 0; w < workers; w++ {
					w := w
					wg.Add(1)
					go func() {
						defer wg.Done()
						for i := 0; i < rounds; i++ {
							d := kit.Artifact(fmt.Sprintf("c07-overlap-%d-%d", w, i))
							d.Size = int64(1000 + w) // same number of digits: equally long payloads ...
							if i%2 == 1 {
								d.Annotations = map[string]string{"worker": fmt.Sprint(w), "pad": fmt.Sprintf("%0*d", 1+(w*7+i)%40, i)} // ... and different lengths
							}
							env, _, err := sgn.Sign(ctx, d, notation.SignerSignOptions{SignatureMediaType: format, SigningAgent: "c07-overlap"})
							results[w] = append(results[w], res{d, env, err})
						}
					}()
				}
				wg.Wait()
				runtime.GOMAXPROCS(prev)
				site := fmt.Sprintf("%s:%s", kind, map[string]string{envb.MTJWS: "jws", envb.MTCOSE: "cose"}[format])
				for w := range results {
					for _, r := range results[w] {
						total++
						info := map[string]any{"signer": kind, "format": format, "processors": procs, "goroutines": workers, "descriptor": r.desc}
						if r.err != nil {
							rec.Failf(t, "C07:overlap:sign-failed:"+site, info, "Sign failed for a legal request while other Sign calls on the same signer were running: %v", r.err)
							return
						}
						out, verr := v.Verify(context.Background(), r.desc, r.env, notation.VerifierVerifyOptions{ArtifactReference: kit.Reference(r.desc), SignatureMediaType: format})
						if verr != nil || out == nil {
							got := ""
							if iv, ierr := envb.IndependentVerify(format, r.env); ierr == nil {
								got = string(iv.Payload)
							}
							rec.Failf(t, "C07:overlap:verify-failed:"+site, info, "a signature returned by Sign while other Sign calls were running does not verify for the descriptor it was asked to sign: %v (signed payload: %s)", verr, got)
							return
						}
						iv, ierr := envb.IndependentVerify(format, r.env)
						if ierr != nil {
							rec.Failf(t, "C07:overlap:independent-verifier-rejects:"+site, info, "%v", ierr)
							return
						}
						tgt, derr := envb.DecodeTarget(iv.Payload)
						if derr != nil || tgt.Digest != r.desc.Digest.String() || tgt.Size.String() != fmt.Sprint(r.desc.Size) || !eqMap(tgt.Annotations, r.desc.Annotations) {
							rec.Failf(t, "C07:overlap:payload-of-another-call:"+site, info, "the signed payload %s is not the descriptor this call was given", iv.Payload)
							return
						}
					}
				}
				rec.Case([]string{"overlapping-signs", "overlap-signer=" + kind, fmt.Sprintf("overlap-processors=%d", procs)}, true, stats.Fingerprint("c07-overlap", kind, format, procs), func() any {
					return map[string]any{"signer": kind, "format": format, "processors": procs, "goroutines": workers, "signs_per_goroutine": rounds}
				})
			}
		}
	}
	rec.Add("count_overlapping_signs", int64(total))
}
