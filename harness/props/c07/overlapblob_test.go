package c07

import (
	"bytes"
	"context"
	"fmt"
	"io"
	"runtime"
	"sync"
	"testing"

	"github.com/notaryproject/notation-go"
	"github.com/notaryproject/notation-go/signer"
	"github.com/notaryproject/notation-go/verifier"

	"verifharness/internal/envb"
	"verifharness/internal/kit"
	"verifharness/internal/mocks"
	"verifharness/internal/stats"
)

// onlyReader hides every other method of the reader behind it (no WriterTo, no Seeker): a blob that
// arrives over a pipe or a network connection.
type onlyReader struct{ r io.Reader }

func (o onlyReader) Read(p []byte) (int, error) { return o.r.Read(p) }

// TestC07_OverlappingBlobs: "the blob digest is computed with the hash bound to the signing key" and
// "what the library signs, it verifies" hold for every call, also when blob calls overlap: eight
// goroutines sign and then verify blobs of 3 MiB each, all different, read through plain readers, on
// several processors. Every signature must verify for its own blob, the returned descriptor must carry
// the harness's own digest of that blob, and no signature may verify for a neighbour's blob. Runs in
// one shard.
func TestC07_OverlappingBlobs(t *testing.T) {
	rec := stats.New(t, "C07", rule)
	if s, n := stats.Shard(); s != 4%n {
		t.Skip("runs in one shard")
	}
	rounds := 2
	if stats.Tier() == "thorough" {
		rounds = 40
	}
	const workers = 8
	const size = 3 << 20
	old := runtime.GOMAXPROCS(0)
	if old < 4 {
		runtime.GOMAXPROCS(4)
		defer runtime.GOMAXPROCS(old)
	}
	ch := chainFor("EC-256")
	sgn, err := signer.NewGenericSigner(ch.Leaf().Key, ch.X509())
	if err != nil {
		t.Fatalf("harness: %v", err)
	}
	ts := mocks.NewTrustStore().Put("ca", "x", ch.Root().Cert)
	vopts := kit.Options()
	vopts.BlobTrustPolicy = kit.BlobDoc("", kit.Level{Base: "strict"}.SV(""), []string{"ca:x"}, []string{"*"})
	v, err := verifier.NewVerifierWithOptions(ts, vopts)
	if err != nil {
		t.Fatalf("harness: %v", err)
	}
	ctx := context.Background()
	for round := 0; round < rounds; round++ {
		format := []string{envb.MTJWS, envb.MTCOSE}[round%2]
		blobs := make([][]byte, workers)
		for w := range blobs {
			b := make([]byte, size)
			for i := range b {
				b[i] = byte(i*(2*w+3) + w + round)
			}
			blobs[w] = b
		}
		type res struct{ key, msg string }
		out := make([]res, workers)
		var wg sync.WaitGroup
		start := make(chan struct{})
		for w := 0; w < workers; w++ {
			wg.Add(1)
			go func(w int) {
				defer wg.Done()
				<-start
				own := kit.OwnDigest("sha256", blobs[w])
				env, _, err := notation.SignBlob(ctx, sgn, onlyReader{bytes.NewReader(blobs[w])}, notation.SignBlobOptions{SignerSignOptions: notation.SignerSignOptions{SignatureMediaType: format}, ContentMediaType: "application/octet-stream"})
				if err != nil {
					out[w] = res{"C07:overlapping-blobs:sign-failed", fmt.Sprintf("SignBlob failed for a legal request while %d other blob calls were in flight: %v", workers-1, err)}
					return
				}
				got, _, err := notation.VerifyBlob(ctx, v, onlyReader{bytes.NewReader(blobs[w])}, env, notation.VerifyBlobOptions{BlobVerifierVerifyOptions: notation.BlobVerifierVerifyOptions{SignatureMediaType: format}, ContentMediaType: "application/octet-stream"})
				if err != nil {
					out[w] = res{"C07:overlapping-blobs:verify-failed", fmt.Sprintf("what the library signed does not verify when blob calls overlap: %v", err)}
					return
				}
				if got.Digest.String() != own || got.Size != size {
					out[w] = res{"C07:overlapping-blobs:descriptor", fmt.Sprintf("VerifyBlob returned (%s, %d); the blob is (%s, %d)", got.Digest, got.Size, own, size)}
					return
				}
				other := blobs[(w+1)%workers]
				if _, _, err := notation.VerifyBlob(ctx, v, onlyReader{bytes.NewReader(other)}, env, notation.VerifyBlobOptions{BlobVerifierVerifyOptions: notation.BlobVerifierVerifyOptions{SignatureMediaType: format}}); err == nil {
					out[w] = res{"C07:overlapping-blobs:verified-for-another-blob", "a signature made for one blob verified for the blob of a neighbouring call"}
				}
			}(w)
		}
		close(start)
		wg.Wait()
		for w, r := range out {
			rec.Case([]string{"overlapping-blob-calls", "format=" + map[string]string{envb.MTJWS: "jws", envb.MTCOSE: "cose"}[format]}, true, stats.Fingerprint("overlap-blob", round, w), func() any { return fmt.Sprintf("round %d worker %d", round, w) })
			if r.key != "" {
				rec.Failf(t, r.key, fmt.Sprintf("round %d worker %d %s", round, w, format), "%s", r.msg)
			}
		}
	}
}
