package c19

import (
	"bytes"
	"context"
	"fmt"
	"testing"

	"github.com/notaryproject/notation-go/registry"
	"github.com/opencontainers/go-digest"
	ocispec "github.com/opencontainers/image-spec/specs-go/v1"
	"oras.land/oras-go/v2/content/memory"

	"verifharness/internal/stats"
)

// TestC19_BlobCapBoundary pins the blob cap from both sides with real content: an envelope of
// exactly the cap (and one byte less) does not exceed it and must round-trip like any other
// signature; one byte more is refused on fetch without its content being requested. The random
// sessions only reach the upper side (through declared sizes); the exact boundary is a
// single-point region that a generator would not hit, hence the deterministic companion.
func TestC19_BlobCapBoundary(t *testing.T) {
	rec := stats.New(t, "C19", rule)
	if s, _ := stats.Shard(); s != 0 {
		return
	}
	ctx := context.Background()
	for i, delta := range []int64{-1, 0, 1} {
		size := capBlob + delta
		name := fmt.Sprintf("blob-cap%+d", delta)
		rec.Case([]string{"blob-cap-boundary", name}, true, stats.Fingerprint("blob-cap", delta), func() any { return name })
		inner := memory.New()
		ls := &logStore{inner: inner, forbidden: map[digest.Digest]string{}}
		repo := registry.NewRepository(ls)
		art, _ := artifactManifest("boundary", fmt.Sprint(i))
		subject := ocispec.Descriptor{MediaType: mtImage, Digest: digest.FromBytes(art), Size: int64(len(art))}
		if err := inner.Push(ctx, subject, bytes.NewReader(art)); err != nil {
			t.Fatalf("harness: push subject: %v", err)
		}
		env := bytes.Repeat([]byte{byte('a' + i)}, int(size))
		copy(env, fmt.Sprintf("envelope-%d-", i))
		mt := []string{mtJOSE, mtCOSE, mtJOSE}[i]
		blobDesc, manDesc, err := repo.PushSignature(ctx, mt, env, subject, map[string]string{"k": "v"})
		if err != nil {
			if delta <= 0 {
				rec.Failf(t, "C19:blob-cap:push-refused:"+name, name, "PushSignature of an envelope of %d bytes (cap %d) failed: %v", size, capBlob, err)
			}
			continue // refusing an oversized envelope at push time is fine too
		}
		if delta > 0 {
			ls.forbidden[blobDesc.Digest] = "blob-of:oversize-blob"
		}
		var listed []ocispec.Descriptor
		if err := repo.ListSignatures(ctx, subject, func(ds []ocispec.Descriptor) error { listed = append(listed, ds...); return nil }); err != nil {
			rec.Failf(t, "C19:blob-cap:list-failed:"+name, name, "ListSignatures failed: %v", err)
			continue
		}
		if delta <= 0 && (len(listed) != 1 || listed[0].Digest != manDesc.Digest) {
			rec.Failf(t, "C19:blob-cap:not-listed:"+name, name, "pushed one signature (%s), listing gives %v", manDesc.Digest, digests(listed))
			continue
		}
		got, gotDesc, err := repo.FetchSignatureBlob(ctx, manDesc)
		switch {
		case delta <= 0 && err != nil:
			rec.Failf(t, "C19:blob-cap:fetch-refused:"+name, name, "an envelope of %d bytes does not exceed the cap of %d, yet fetching it failed: %v", size, capBlob, err)
		case delta <= 0 && (!bytes.Equal(got, env) || gotDesc.MediaType != mt || gotDesc.Digest != blobDesc.Digest):
			rec.Failf(t, "C19:blob-cap:round-trip:"+name, name, "envelope of %d bytes did not round-trip (got %d bytes, media type %q)", size, len(got), gotDesc.MediaType)
		case delta > 0 && err == nil:
			rec.Failf(t, "C19:blob-cap:oversize-accepted", name, "an envelope of %d bytes exceeds the cap of %d, yet it was fetched", size, capBlob)
		case delta > 0 && len(ls.used) > 0:
			rec.Failf(t, "C19:blob-cap:oversize-content-used", name, "the oversized blob's content was requested before the refusal")
		}
	}
}
