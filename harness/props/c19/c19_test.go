// C19 — stored signatures round-trip byte-for-byte and stay with their artifact.
//
// A rapid state machine drives registry.Repository (built with registry.NewRepository over ONE
// oras store instance per session: an OCI layout on disk or an in-memory store) through pushes of
// artifacts, signatures, foreign referrers and hand-built hostile manifests, re-opens of the
// layout, listings and fetches. The oracle is a model written from the statement: every referrer
// manifest the harness knows about is classified *from the structure the generator built* relative
// to the subject being listed (see relation). The code under test only sees the store through a
// wrapper that logs every Fetch and refuses to hand out content the statement says must never be
// used (DESIGN.md section 5, C19).
package c19

import (
	"bytes"
	"context"
	"encoding/json"
	"errors"
	"flag"
	"fmt"
	"io"
	"os"
	"path/filepath"
	"sort"
	"strings"
	"testing"

	"github.com/notaryproject/notation-go/registry"
	"github.com/opencontainers/go-digest"
	"github.com/opencontainers/image-spec/specs-go"
	ocispec "github.com/opencontainers/image-spec/specs-go/v1"
	"oras.land/oras-go/v2"
	"oras.land/oras-go/v2/content/memory"
	"oras.land/oras-go/v2/content/oci"
	"oras.land/oras-go/v2/errdef"
	"pgregory.net/rapid"

	"verifharness/internal/rp"
	"verifharness/internal/stats"
)

const rule = "case = one session (store kind + operation list with kinds, subjects, formats, sizes); non-trivial = >=2 subject artifacts or a foreign/hostile referrer present; distinct by the operation list"

const (
	typeNotation   = "application/vnd.cncf.notary.signature" // the statement's "signature" artifact type
	typeOther      = "application/vnd.example.sbom.v1"
	mtImage        = ocispec.MediaTypeImageManifest
	mtLegacy       = "application/vnd.oci.artifact.manifest.v1+json"
	mtDocker       = "application/vnd.docker.distribution.manifest.v2+json"
	mtJOSE         = "application/jose+json"
	mtCOSE         = "application/cose"
	capBlob        = int64(32 << 20) // a blob may be at most this large
	capManifest    = int64(4 << 20)  // a manifest may be at most this large
	maxPushes      = 12
	maxEnvelope    = 256 << 10
	annCreated     = "org.opencontainers.image.created"
	relUnrelated   = "unrelated" // must not be listed for the subject
	relSignature   = "signature" // must be listed for the subject and round-trip
	relHostile     = "hostile"   // right type and subject, but not exactly one blob / oversized blob: may be listed, must be refused on fetch
	relPoison      = "poison"    // right type and subject, manifest above the cap: refused before its content is used
	howAPI         = "api"
	howHand        = "hand"
	howHandLegacy  = "legacy"
	refusedMessage = "harness: the code under test asked for content that must be refused before it is used"
)

var padding = strings.Repeat("a", 6<<20)

// ---------------------------------------------------------------------------------------------
// the store wrapper the code under test sees

type logStore struct {
	inner     oras.GraphTarget
	fetched   []ocispec.Descriptor
	forbidden map[digest.Digest]string // content that must never be requested -> kind
	used      []string                 // kinds of forbidden content that were requested
}

func (l *logStore) Fetch(ctx context.Context, d ocispec.Descriptor) (io.ReadCloser, error) {
	l.fetched = append(l.fetched, d)
	if kind, bad := l.forbidden[d.Digest]; bad {
		// Record and refuse: a mutant without the size cap would otherwise allocate the
		// declared size (up to 1 TiB) before failing, which would kill the harness instead
		// of producing a finding.
		l.used = append(l.used, kind)
		return nil, errors.New(refusedMessage)
	}
	return l.inner.Fetch(ctx, d)
}
func (l *logStore) Push(ctx context.Context, d ocispec.Descriptor, r io.Reader) error {
	return l.inner.Push(ctx, d, r)
}
func (l *logStore) Exists(ctx context.Context, d ocispec.Descriptor) (bool, error) {
	return l.inner.Exists(ctx, d)
}
func (l *logStore) Resolve(ctx context.Context, ref string) (ocispec.Descriptor, error) {
	return l.inner.Resolve(ctx, ref)
}
func (l *logStore) Tag(ctx context.Context, d ocispec.Descriptor, ref string) error {
	return l.inner.Tag(ctx, d, ref)
}
func (l *logStore) Predecessors(ctx context.Context, d ocispec.Descriptor) ([]ocispec.Descriptor, error) {
	return l.inner.Predecessors(ctx, d)
}

// ---------------------------------------------------------------------------------------------
// model

type subject struct {
	name    string
	desc    ocispec.Descriptor // plain: media type, digest, size
	content []byte
	active  bool
}

// referrer is one manifest in the store that points (or pretends to point) at something.
type referrer struct {
	id           int
	how          string // api, hand, legacy
	kind         string // generation label, for classes and finding keys
	manifest     ocispec.Descriptor
	pushedDesc   ocispec.Descriptor // what PushSignature returned (api only)
	artifactType string
	subject      *ocispec.Descriptor
	layers       []ocispec.Descriptor
	annotations  map[string]string
}

func eq3(a, b ocispec.Descriptor) bool {
	return a.MediaType == b.MediaType && a.Digest == b.Digest && a.Size == b.Size
}

func plain(d ocispec.Descriptor) ocispec.Descriptor {
	return ocispec.Descriptor{MediaType: d.MediaType, Digest: d.Digest, Size: d.Size}
}

type session struct {
	rt          *rapid.T
	rec         *stats.Recorder
	ctx         context.Context
	kind        string // disk, memory
	dir         string
	inner       oras.GraphTarget
	ls          *logStore
	repo        registry.Repository
	pool        []*subject
	refs        []*referrer
	blobs       map[digest.Digest][]byte // every blob the harness or PushSignature stored
	emptyPushed bool                     // the empty envelope has been pushed in this session
	counter     int
	pushes      int
	bigOnes     int  // 4 MiB manifests in this session (kept to one: disk traffic)
	noReopen    bool // a referrer with a dangling (wrong size / wrong digest) subject exists
	ops         []string
	foreign     int
	hostile     int
	reopened    int
	// held: envelope slices exactly as FetchSignatureBlob returned them (not copies), with the digest
	// they must keep having: what a caller was handed stays what it is, whatever is fetched later
	held []heldEnvelope
}

type heldEnvelope struct {
	got  []byte
	want digest.Digest
	id   int
}

// relation classifies r relative to subject x purely from the structure that was generated.
func (s *session) relation(r *referrer, x ocispec.Descriptor) string {
	if r.subject == nil || !eq3(*r.subject, x) || r.artifactType != typeNotation {
		return relUnrelated
	}
	if r.manifest.Size > capManifest {
		return relPoison
	}
	if len(r.layers) != 1 || r.layers[0].Size > capBlob {
		return relHostile
	}
	if b, ok := s.blobs[r.layers[0].Digest]; !ok || int64(len(b)) != r.layers[0].Size {
		s.rt.Fatalf("harness: referrer %d (%s) has a single in-cap layer that is not a stored blob", r.id, r.kind)
	}
	return relSignature
}

// foreignClass says why r is not a signature of x (for finding keys).
func (s *session) foreignClass(r *referrer, x ocispec.Descriptor) string {
	if r.subject == nil {
		return "no-subject"
	}
	if eq3(*r.subject, x) {
		return "other-type"
	}
	for _, p := range s.pool {
		if !eq3(p.desc, x) && eq3(*r.subject, p.desc) {
			return "other-artifact"
		}
	}
	var shared []string
	if r.subject.Digest == x.Digest {
		shared = append(shared, "digest")
	}
	if r.subject.Size == x.Size {
		shared = append(shared, "size")
	}
	if r.subject.MediaType == x.MediaType {
		shared = append(shared, "mediatype")
	}
	if len(shared) > 0 {
		return "near-subject"
	}
	return "other-artifact"
}

func (s *session) fail(key string, format string, args ...any) {
	s.rec.Failf(s.rt, key, map[string]any{"store": s.kind, "ops": s.ops}, format, args...)
}

func (s *session) op(format string, args ...any) {
	s.ops = append(s.ops, fmt.Sprintf(format, args...))
}

// afterCall checks the fetch log after every call into the code under test.
func (s *session) afterCall(site string) {
	if len(s.ls.used) > 0 {
		kind := s.ls.used[0]
		s.ls.used = nil
		s.fail("C19:refused-content-used:"+kind+":"+site, "%s requested the content of a referrer part that must be refused before use (%s); fetch log: %v", site, kind, digests(s.ls.fetched))
	}
	for _, h := range s.held {
		if !bytes.Equal(h.got, s.blobs[h.want]) {
			s.held = nil
			s.fail("C19:fetched-bytes-changed-later:"+site, "the envelope returned earlier for signature #%d no longer holds the pushed bytes after a later %s (it now has digest %s)", h.id, site, digest.FromBytes(h.got))
			return
		}
	}
}

func digests(ds []ocispec.Descriptor) []string {
	var out []string
	for _, d := range ds {
		out = append(out, fmt.Sprintf("%s/%d", d.Digest.Encoded()[:8], d.Size))
	}
	return out
}

// ---------------------------------------------------------------------------------------------
// raw store access of the harness (never through the wrapper, never through notation-go)

func (s *session) rawPush(mt string, b []byte) ocispec.Descriptor {
	return s.rawPushAs(mt, b, false)
}

// rawPushAs stores b; with lying set, the descriptor handed to the store claims (in its optional
// fields, which no store verifies) to be a Notary signature: what a referrer is follows from its
// manifest's content, never from what the pusher's descriptor said about it.
func (s *session) rawPushAs(mt string, b []byte, lying bool) ocispec.Descriptor {
	d := ocispec.Descriptor{MediaType: mt, Digest: digest.FromBytes(b), Size: int64(len(b))}
	if lying {
		lie := d
		lie.ArtifactType = typeNotation
		lie.Annotations = map[string]string{"io.cncf.notary.x509chain.thumbprint#S256": "[]"}
		if err := s.inner.Push(s.ctx, lie, bytes.NewReader(b)); err != nil && !errors.Is(err, errdef.ErrAlreadyExists) {
			s.rt.Fatalf("harness: raw push of %s (%d bytes): %v", mt, len(b), err)
		}
		s.blobs[d.Digest] = b
		s.rec.Class("pushed-with-lying-descriptor", 1)
		return d
	}
	if err := s.inner.Push(s.ctx, d, bytes.NewReader(b)); err != nil && !errors.Is(err, errdef.ErrAlreadyExists) {
		s.rt.Fatalf("harness: raw push of %s (%d bytes): %v", mt, len(b), err)
	}
	s.blobs[d.Digest] = b
	return d
}

// rawRead returns the stored bytes behind d, verifying nothing.
func (s *session) rawRead(d ocispec.Descriptor) ([]byte, error) {
	rc, err := s.inner.Fetch(s.ctx, d)
	if err != nil {
		return nil, err
	}
	defer rc.Close()
	return io.ReadAll(rc)
}

// uniqueBytes returns n >= 1 bytes that differ from every other blob of the session (the first
// byte is a per-session counter) and otherwise run through all byte values.
func (s *session) uniqueBytes(n int, seed, step byte) []byte {
	s.counter++
	if s.counter > 250 {
		s.rt.Fatalf("harness: blob counter overflow")
	}
	b := make([]byte, n)
	b[0] = byte(s.counter)
	for i := 1; i < n; i++ {
		b[i] = seed + byte(i)*step
	}
	return b
}

// dedicatedBlob stores a fresh small blob used only by one hand-built manifest.
func (s *session) dedicatedBlob() ocispec.Descriptor {
	mt := rp.Pick(s.rt, "blobFormat", mtJOSE, mtCOSE)
	n := rapid.IntRange(1, 48).Draw(s.rt, "blobSize")
	return s.rawPush(mt, s.uniqueBytes(n, 0x40, 1))
}

type legacyManifest struct {
	MediaType    string               `json:"mediaType"`
	ArtifactType string               `json:"artifactType"`
	Blobs        []ocispec.Descriptor `json:"blobs,omitempty"`
	Subject      *ocispec.Descriptor  `json:"subject,omitempty"`
	Annotations  map[string]string    `json:"annotations,omitempty"`
}

type handSpec struct {
	kind         string
	legacy       bool
	artifactType string
	typeInField  bool // image manifest: type in "artifactType", config is the empty config
	subject      *ocispec.Descriptor
	layers       []ocispec.Descriptor
	nullLayers   bool  // image manifest: "layers":null instead of []
	targetSize   int64 // 0 = natural size, otherwise padded to exactly this size
	dedicated    []ocispec.Descriptor
}

// pushHand builds a manifest by hand and stores it through the raw store.
func (s *session) pushHand(h handSpec) *referrer {
	s.counter++
	ann := map[string]string{"harness.n": fmt.Sprint(s.counter)}
	build := func() []byte {
		var v any
		if h.legacy {
			v = legacyManifest{MediaType: mtLegacy, ArtifactType: h.artifactType, Blobs: h.layers, Subject: h.subject, Annotations: ann}
		} else {
			m := ocispec.Manifest{Versioned: specs.Versioned{SchemaVersion: 2}, MediaType: mtImage,
				Config: ocispec.Descriptor{MediaType: h.artifactType, Digest: ocispec.DescriptorEmptyJSON.Digest, Size: ocispec.DescriptorEmptyJSON.Size},
				Layers: h.layers, Subject: h.subject, Annotations: ann}
			if h.typeInField {
				m.Config.MediaType = ocispec.MediaTypeEmptyJSON
				m.ArtifactType = h.artifactType
			}
			if m.Layers == nil && !h.nullLayers {
				m.Layers = []ocispec.Descriptor{}
			}
			v = m
		}
		b, err := json.Marshal(v)
		if err != nil {
			s.rt.Fatalf("harness: marshal: %v", err)
		}
		return b
	}
	b := build()
	if h.targetSize > 0 {
		ann["pad"] = ""
		base := int64(len(build()))
		if h.targetSize < base || h.targetSize-base > int64(len(padding)) {
			s.rt.Fatalf("harness: cannot pad %d to %d", base, h.targetSize)
		}
		ann["pad"] = padding[:h.targetSize-base]
		b = build()
		if int64(len(b)) != h.targetSize {
			s.rt.Fatalf("harness: padded manifest has %d bytes, want %d", len(b), h.targetSize)
		}
	}
	mt := mtImage
	how := howHand
	if h.legacy {
		mt, how = mtLegacy, howHandLegacy
	}
	d := s.rawPushAs(mt, b, rapid.IntRange(0, 2).Draw(s.rt, "lyingDescriptor") == 0)
	delete(s.blobs, d.Digest) // manifests are not signature blobs (and 4 MiB ones need not be kept)
	r := &referrer{id: len(s.refs), how: how, kind: h.kind, manifest: d, artifactType: h.artifactType,
		subject: h.subject, layers: h.layers, annotations: ann}
	s.refs = append(s.refs, r)
	// content that nobody may ask for: the over-cap manifest itself, and the dedicated blobs
	// of a manifest that is not a well-formed signature of any subject.
	if d.Size > capManifest {
		s.ls.forbidden[d.Digest] = "oversize-manifest"
	}
	wellFormed := false
	for _, p := range s.pool {
		if rel := s.relation(r, p.desc); rel == relSignature {
			wellFormed = true
		}
	}
	if !wellFormed {
		for _, blob := range h.dedicated {
			s.ls.forbidden[blob.Digest] = "blob-of:" + h.kind
		}
	}
	return r
}

// ---------------------------------------------------------------------------------------------
// operations

func (s *session) activeSubjects() []*subject {
	var out []*subject
	for _, p := range s.pool {
		if p.active {
			out = append(out, p)
		}
	}
	return out
}

func (s *session) pickActive(label string) *subject {
	a := s.activeSubjects()
	return a[rapid.IntRange(0, len(a)-1).Draw(s.rt, label)]
}

// decorate optionally adds the fields a resolved descriptor carries beyond the three that
// identify content; the statement identifies an artifact by its descriptor's content fields.
func (s *session) decorate(d ocispec.Descriptor) ocispec.Descriptor {
	if rapid.IntRange(0, 3).Draw(s.rt, "decorate") == 0 {
		d.Annotations = map[string]string{"org.opencontainers.image.ref.name": "v1", "io.example": "x"}
		d.ArtifactType = "application/vnd.example.thing"
	}
	return d
}

func (s *session) pushArtifact(p *subject) {
	// the artifact's own parts, then its manifest; a second subject with the same bytes under
	// another media type is "already there" on disk (content-addressed) and new in memory
	// (keyed by the whole descriptor) - both are fine, listing never needs the subject's bytes.
	if err := s.inner.Push(s.ctx, p.desc, bytes.NewReader(p.content)); err != nil && !errors.Is(err, errdef.ErrAlreadyExists) {
		s.rt.Fatalf("harness: push artifact %s: %v", p.name, err)
	}
	s.blobs[p.desc.Digest] = p.content
	p.active = true
	s.op("artifact %s", p.name)
}

func (s *session) opPushArtifact(rt *rapid.T) {
	var inactive []*subject
	for _, p := range s.pool {
		if !p.active {
			inactive = append(inactive, p)
		}
	}
	if len(inactive) == 0 {
		rt.Skip("all subjects pushed")
	}
	s.pushArtifact(inactive[rapid.IntRange(0, len(inactive)-1).Draw(rt, "artifact")])
}

var annKeys = []string{"io.cncf.notary.x509chain.thumbprint#S256", "a", "", annCreated, "ключ", "k.with/slash", "A"}
var annVals = []string{"", "v", `["abc","def"]`, "<&>\"\\\n\t ", "日本語", strings.Repeat("long-", 60), " "}

func (s *session) drawAnnotations() map[string]string {
	n := rp.Pick(s.rt, "annCount", -1, 0, 1, 1, 2, 3, 5)
	if n < 0 {
		return nil
	}
	m := map[string]string{}
	for i := 0; i < n; i++ {
		k := rp.Pick(s.rt, "annKey", annKeys...)
		v := rp.Pick(s.rt, "annVal", annVals...)
		if k == annCreated {
			// oras validates a supplied creation time; only well-formed ones are in the domain
			v = rp.Pick(s.rt, "created", "2000-01-02T03:04:05Z", "2031-12-31T23:59:59+05:30")
		}
		m[k] = v
	}
	return m
}

func copyMap(m map[string]string) map[string]string {
	if m == nil {
		return nil
	}
	c := make(map[string]string, len(m))
	for k, v := range m {
		c[k] = v
	}
	return c
}

func sortedKeys(m map[string]string) []string {
	ks := make([]string, 0, len(m))
	for k := range m {
		ks = append(ks, k)
	}
	sort.Strings(ks)
	return ks
}

func (s *session) opPushSignature(rt *rapid.T) {
	if s.pushes >= maxPushes {
		rt.Skip("push budget used")
	}
	subj := s.pickActive("sigSubject")
	// the two envelope media types of the specification, and now and then another spelling: the
	// repository stores what it is given and hands it back unchanged
	format := rp.Pick(rt, "format", mtJOSE, mtCOSE, mtJOSE, mtCOSE, mtJOSE, mtCOSE, "application/vnd.example.Envelope.v1+cbor", "application/jose+json; charset=utf-8", "Application/COSE")
	var n int
	sizeClass := rp.Pick(rt, "sizeClass", "0B", "1B", "small", "small", "small", "small", "medium", "medium", "medium", "medium", "medium", "medium", "large", "large", "256KiB")
	switch sizeClass {
	case "0B": // an envelope without a single byte is stored and handed back like any other
		n = 0
		if s.emptyPushed { // envelopes are distinct within a session (a second push of the same bytes is refused as "already exists")
			n, sizeClass = 1, "1B"
		}
		s.emptyPushed = true
	case "1B":
		n = 1
	case "small":
		n = rapid.IntRange(2, 64).Draw(rt, "size")
	case "medium":
		n = rapid.IntRange(65, 4096).Draw(rt, "size")
	case "large":
		n = rapid.IntRange(4097, 65536).Draw(rt, "size")
	default:
		n = maxEnvelope - rp.Pick(rt, "below", 0, 0, 1, 4095)
	}
	env := []byte{}
	if n > 0 {
		env = s.uniqueBytes(n, rapid.Byte().Draw(rt, "fill"), byte(2*rapid.IntRange(0, 127).Draw(rt, "step")+1))
	}
	ann := s.drawAnnotations()
	passed := s.decorate(subj.desc)
	s.pushes++
	s.op("sign %s %s %dB ann=%v", subj.name, format, n, sortedKeys(ann))
	s.rec.Class("op=push-signature", 1)
	s.rec.Class("env="+sizeClass, 1)
	s.rec.Class("fmt="+format, 1)
	if ann == nil {
		s.rec.Class("annotations=nil", 1)
	} else {
		s.rec.Class(fmt.Sprintf("annotations=%d", len(ann)), 1)
	}

	blobDesc, manDesc, err := s.repo.PushSignature(s.ctx, format, append([]byte(nil), env...), passed, copyMap(ann))
	s.afterCall("push")
	if err != nil {
		s.fail("C19:push-error:"+s.kind, "PushSignature(%s, %d bytes, subject %s) failed: %v", format, n, subj.name, err)
		return
	}
	// what PushSignature returns must describe what was stored
	want := ocispec.Descriptor{MediaType: format, Digest: digest.FromBytes(env), Size: int64(n)}
	if !eq3(blobDesc, want) {
		s.fail("C19:push-blob-descriptor", "PushSignature returned blob descriptor %v for an envelope that is %v", plain(blobDesc), want)
	}
	if got, err := s.rawRead(want); err != nil || !bytes.Equal(got, env) {
		s.fail("C19:push-blob-stored:"+s.kind, "the store does not hold the pushed envelope under its digest (err=%v, %d bytes stored, %d pushed)", err, len(got), n)
	}
	if s.kind == "disk" {
		onDisk, err := os.ReadFile(filepath.Join(s.dir, "blobs", want.Digest.Algorithm().String(), want.Digest.Encoded()))
		if err != nil || !bytes.Equal(onDisk, env) {
			s.fail("C19:push-blob-stored:layout-file", "blobs/%s/%s does not hold the pushed envelope (err=%v)", want.Digest.Algorithm(), want.Digest.Encoded(), err)
		}
	}
	stored, err := s.rawRead(manDesc)
	if err != nil || digest.FromBytes(stored) != manDesc.Digest || int64(len(stored)) != manDesc.Size || manDesc.MediaType != mtImage {
		s.fail("C19:push-manifest-descriptor", "the returned manifest descriptor %v does not describe stored content (err=%v, stored %d bytes, digest %s)", plain(manDesc), err, len(stored), digest.FromBytes(stored))
	}
	var m ocispec.Manifest
	if err := json.Unmarshal(stored, &m); err != nil {
		s.fail("C19:push-manifest-content", "stored signature manifest does not parse: %v", err)
	}
	if m.Subject == nil || !eq3(*m.Subject, subj.desc) || len(m.Layers) != 1 || !eq3(m.Layers[0], want) {
		s.fail("C19:push-manifest-content", "stored signature manifest has subject %v layers %v, pushed subject %v blob %v", m.Subject, m.Layers, subj.desc, want)
	}
	s.blobs[want.Digest] = env
	sub := subj.desc
	s.refs = append(s.refs, &referrer{id: len(s.refs), how: howAPI, kind: "api", manifest: plain(manDesc), pushedDesc: manDesc,
		artifactType: typeNotation, subject: &sub, layers: []ocispec.Descriptor{want}, annotations: copyMap(ann)})
}

// layerRef returns layers that mention subj as a LAYER, plus the dedicated blobs used.
func (s *session) layerRef(subj *subject, allowNone bool) ([]ocispec.Descriptor, []ocispec.Descriptor, string) {
	shapes := []string{"[S]", "[b,S]", "[S,b]"}
	if allowNone {
		shapes = append(shapes, "[b]")
	}
	switch shape := rp.Pick(s.rt, "layerShape", shapes...); shape {
	case "[S]":
		return []ocispec.Descriptor{subj.desc}, nil, shape
	case "[b,S]":
		b := s.dedicatedBlob()
		return []ocispec.Descriptor{b, subj.desc}, []ocispec.Descriptor{b}, shape
	case "[S,b]":
		b := s.dedicatedBlob()
		return []ocispec.Descriptor{subj.desc, b}, []ocispec.Descriptor{b}, shape
	default:
		b := s.dedicatedBlob()
		return []ocispec.Descriptor{b}, []ocispec.Descriptor{b}, shape
	}
}

func (s *session) opPushForeign(rt *rapid.T) {
	if s.pushes >= maxPushes {
		rt.Skip("push budget used")
	}
	subj := s.pickActive("foreignSubject")
	kind := rp.Pick(rt, "foreignKind", "other-type", "other-type-field", "legacy-other-type", "legacy-notation",
		"layer-ref-no-subject", "layer-ref-other-subject", "subject-off-digest", "subject-off-size", "subject-off-mediatype")
	h := handSpec{kind: kind, artifactType: typeNotation}
	detail := ""
	// "none of another artifact type": another type is any other string, however much it looks like the
	// signature type (letter case, a media-type suffix or parameter, a version, stray blanks)
	otherType := rp.Pick(rt, "otherType", typeOther, typeOther, "application/vnd.CNCF.notary.signature", typeNotation+"+json", typeNotation+"; version=2",
		typeNotation+";v=1", typeNotation+".v2", typeNotation+" ", " "+typeNotation, typeNotation[:len(typeNotation)-1], "Application/vnd.cncf.notary.signature", typeNotation+"+cose")
	switch kind {
	case "other-type", "other-type-field":
		b := s.dedicatedBlob()
		sub := subj.desc
		h.artifactType, h.typeInField, h.subject, h.layers, h.dedicated = otherType, kind == "other-type-field", &sub, []ocispec.Descriptor{b}, []ocispec.Descriptor{b}
	case "legacy-other-type", "legacy-notation":
		b := s.dedicatedBlob()
		sub := subj.desc
		h.legacy, h.subject, h.layers, h.dedicated = true, &sub, []ocispec.Descriptor{b}, []ocispec.Descriptor{b}
		if kind == "legacy-other-type" {
			h.artifactType = otherType
		}
	case "layer-ref-no-subject":
		h.legacy = rapid.IntRange(0, 3).Draw(rt, "legacy") == 0
		h.layers, h.dedicated, detail = s.layerRef(subj, false)
	case "layer-ref-other-subject":
		var others []*subject
		for _, p := range s.activeSubjects() {
			if p != subj {
				others = append(others, p)
			}
		}
		if len(others) == 0 {
			// no second artifact yet: the same shape without a subject
			h.kind = "layer-ref-no-subject"
			h.layers, h.dedicated, detail = s.layerRef(subj, false)
			break
		}
		o := others[rapid.IntRange(0, len(others)-1).Draw(rt, "otherSubject")].desc
		h.legacy = rapid.IntRange(0, 3).Draw(rt, "legacy") == 0
		h.subject = &o
		h.layers, h.dedicated, detail = s.layerRef(subj, false)
	default: // subject differing from subj in exactly one field
		sub := subj.desc
		switch kind {
		case "subject-off-digest":
			s.counter++
			sub.Digest = digest.FromString(fmt.Sprint("no such content ", s.counter))
			s.noReopen = true
		case "subject-off-size":
			sub.Size += int64(rp.Pick(rt, "sizeDelta", 1, -1, 1000))
			s.noReopen = true
		default:
			var alts []string
			for _, mt := range []string{mtImage, mtDocker, ocispec.MediaTypeImageIndex, "application/octet-stream"} {
				if mt != subj.desc.MediaType {
					alts = append(alts, mt)
				}
			}
			sub.MediaType = rp.Pick(rt, "otherMediaType", alts...)
		}
		h.legacy = rapid.IntRange(0, 3).Draw(rt, "legacy") == 0
		h.subject = &sub
		h.layers, h.dedicated, detail = s.layerRef(subj, true)
	}
	s.pushes++
	s.foreign++
	r := s.pushHand(h)
	s.op("foreign %s %s %s legacy=%v", subj.name, r.kind, detail, h.legacy)
	s.rec.Class("op=push-foreign", 1)
	s.rec.Class("op=push-foreign:"+r.kind, 1)
	if detail != "" {
		s.rec.Class("layer-shape="+detail, 1)
	}
}

func (s *session) opPushHostile(rt *rapid.T) {
	if s.pushes >= maxPushes {
		rt.Skip("push budget used")
	}
	subj := s.pickActive("hostileSubject")
	var kinds []string
	for i := 0; i < 3; i++ {
		kinds = append(kinds, "zero-layers", "zero-layers", "two-layers", "two-layers", "two-layers", "oversize-blob", "oversize-blob", "oversize-blob")
	}
	if s.bigOnes == 0 {
		// 4 MiB manifests are the expensive part of a session (hashing, disk, JSON decoding on
		// every listing): at most one per session, in roughly every sixth session
		kinds = append(kinds, "at-manifest-cap", "oversize-manifest", "oversize-manifest")
	}
	kind := rp.Pick(rt, "hostileKind", kinds...)
	sub := subj.desc
	h := handSpec{kind: kind, artifactType: typeNotation, subject: &sub, legacy: rapid.IntRange(0, 3).Draw(rt, "legacy") == 0}
	detail := ""
	switch kind {
	case "zero-layers":
		h.nullLayers = rapid.Bool().Draw(rt, "nullLayers")
	case "two-layers":
		a := s.dedicatedBlob()
		b := a
		if rapid.IntRange(0, 3).Draw(rt, "sameTwice") != 0 {
			b = s.dedicatedBlob()
		}
		h.layers, h.dedicated = []ocispec.Descriptor{a, b}, []ocispec.Descriptor{a, b}
	case "oversize-blob":
		b := s.dedicatedBlob()
		h.dedicated = []ocispec.Descriptor{b}
		b.Size = rp.Pick(rt, "declaredSize", capBlob+1, capBlob+1, 33<<20, 1<<40)
		detail = fmt.Sprint(b.Size)
		h.layers = []ocispec.Descriptor{b}
	case "oversize-manifest":
		b := s.dedicatedBlob()
		h.layers, h.dedicated = []ocispec.Descriptor{b}, []ocispec.Descriptor{b}
		h.targetSize = rp.Pick(rt, "manifestSize", capManifest+1, capManifest+1, capManifest+4096, 5<<20)
		detail = fmt.Sprint(h.targetSize)
		s.bigOnes++
	case "at-manifest-cap":
		// not hostile: a signature manifest of exactly the cap does not exceed it and is an
		// ordinary signature of the subject (it keeps the cap honest from the other side)
		b := s.dedicatedBlob()
		h.layers, h.dedicated = []ocispec.Descriptor{b}, []ocispec.Descriptor{b}
		h.targetSize = capManifest
		s.bigOnes++
	}
	s.pushes++
	r := s.pushHand(h)
	s.op("hostile %s %s %s legacy=%v", subj.name, kind, detail, h.legacy)
	if kind == "at-manifest-cap" {
		s.rec.Class("op=push-signature:at-manifest-cap", 1)
		if s.relation(r, subj.desc) != relSignature {
			s.rt.Fatalf("harness: at-cap manifest is not classified as a signature")
		}
		return
	}
	s.hostile++
	s.rec.Class("op=push-hostile", 1)
	s.rec.Class("op=push-hostile:"+kind, 1)
	if h.legacy {
		s.rec.Class("op=push-hostile:legacy-format", 1)
	}
}

func (s *session) opReopen(rt *rapid.T) {
	if s.kind != "disk" || s.noReopen {
		rt.Skip("reopen not applicable")
	}
	st, err := oci.New(s.dir)
	if err != nil {
		// oras refuses layouts with dangling wrong-size subjects; those states are excluded
		// above, so this is a harness problem (or an oras one), not a C19 verdict
		s.rt.Fatalf("harness: re-opening the layout failed: %v (ops %v)", err, s.ops)
	}
	s.inner = st
	s.ls = &logStore{inner: st, forbidden: s.ls.forbidden}
	s.repo = registry.NewRepository(s.ls)
	s.reopened++
	s.op("reopen")
	s.rec.Class("op=reopen", 1)
}

// list runs ListSignatures for x, checks the listing against the model and returns the listed
// descriptors with their model referrers (nil, false when the listing was legitimately refused).
func (s *session) list(x *subject) ([]ocispec.Descriptor, []*referrer, bool) {
	s.rec.Class("op=list", 1)
	poisoned := false
	for _, r := range s.refs {
		if s.relation(r, x.desc) == relPoison {
			poisoned = true
		}
	}
	var listed []ocispec.Descriptor
	pages := 0
	err := s.repo.ListSignatures(s.ctx, s.decorate(x.desc), func(ms []ocispec.Descriptor) error {
		pages++
		listed = append(listed, ms...)
		return nil
	})
	s.afterCall("list")
	if err != nil {
		if poisoned {
			// The statement: an over-cap manifest "is refused before its content is used". The
			// code refuses the whole listing of that subject; the statement does not say whether
			// the other signatures must still be listed, so the refusal is accepted.
			s.rec.Class("list-refused:oversize-manifest", 1)
			return nil, nil, false
		}
		s.fail("C19:list-error:"+s.kind, "ListSignatures(%s) failed without an over-cap referrer: %v", x.name, err)
		return nil, nil, false
	}
	byDigest := map[digest.Digest]*referrer{}
	for _, r := range s.refs {
		byDigest[r.manifest.Digest] = r
	}
	seen := map[digest.Digest]int{}
	var owners []*referrer
	for _, d := range listed {
		r := byDigest[d.Digest]
		if r == nil {
			s.fail("C19:list-unknown", "ListSignatures(%s) returned %v, which is no manifest that was pushed", x.name, plain(d))
			return nil, nil, false
		}
		owners = append(owners, r)
		seen[d.Digest]++
		rel := s.relation(r, x.desc)
		if rel == relUnrelated {
			s.fail("C19:list-foreign:"+s.foreignClass(r, x.desc), "ListSignatures(%s = %v) returned referrer #%d (%s, type %s, subject %v, %d layers)", x.name, x.desc, r.id, r.kind, r.artifactType, r.subject, len(r.layers))
			continue
		}
		if seen[d.Digest] > 1 {
			s.fail("C19:list-duplicate", "ListSignatures(%s) returned referrer #%d (%s) %d times", x.name, r.id, r.kind, seen[d.Digest])
		}
		if d.MediaType != r.manifest.MediaType || d.Size != r.manifest.Size {
			s.fail("C19:list-descriptor:"+r.how, "listed descriptor %v does not describe the stored manifest %v", plain(d), r.manifest)
		}
		if rel != relSignature {
			s.rec.Class("listed-hostile:"+r.kind, 1)
			continue
		}
		// the pushed annotations are on the manifest; the only addition is the creation time
		for _, k := range sortedKeys(r.annotations) {
			if v, ok := d.Annotations[k]; !ok {
				s.fail("C19:list-annotations:missing:"+r.how, "annotation %q pushed with signature #%d is not on the listed manifest (has %v)", k, r.id, sortedKeys(d.Annotations))
			} else if v != r.annotations[k] {
				s.fail("C19:list-annotations:changed:"+r.how, "annotation %q was pushed as %q and is listed as %q", k, r.annotations[k], v)
			}
		}
		for _, k := range sortedKeys(d.Annotations) {
			if _, ok := r.annotations[k]; !ok && k != annCreated {
				s.fail("C19:list-annotations:extra:"+r.how, "listed manifest of signature #%d carries annotation %q that was not pushed", r.id, k)
			}
		}
	}
	for _, r := range s.refs {
		if s.relation(r, x.desc) == relSignature && seen[r.manifest.Digest] == 0 {
			s.fail("C19:list-missing:"+r.how, "ListSignatures(%s) does not return signature #%d (%s, %s) pushed for it; listed %d of %d referrers", x.name, r.id, r.kind, r.how, len(listed), len(s.refs))
		}
	}
	if pages > 1 {
		s.rec.Class("multi-page", 1)
	}
	return listed, owners, true
}

// fetch calls FetchSignatureBlob(d) for a referrer whose relation to one of the subjects is rel.
func (s *session) fetch(d ocispec.Descriptor, r *referrer, rel string, site string) {
	got, gotDesc, err := s.repo.FetchSignatureBlob(s.ctx, d)
	s.afterCall("fetch")
	if rel != relSignature {
		s.rec.Class("op=fetch-hostile", 1)
		if err == nil {
			s.fail("C19:hostile-fetched:"+r.kind, "FetchSignatureBlob of referrer #%d (%s: %d layers, manifest %d bytes, layer sizes %v) returned %d bytes as %s instead of refusing", r.id, r.kind, len(r.layers), r.manifest.Size, sizes(r.layers), len(got), gotDesc.MediaType)
			return
		}
		s.rec.Class("fetch-refused:"+r.kind, 1)
		return
	}
	s.rec.Class("op=fetch", 1)
	s.rec.Class("op=fetch:"+site, 1)
	want := r.layers[0]
	if err != nil {
		s.fail("C19:fetch-error:"+r.how, "FetchSignatureBlob of signature #%d (%s, %d byte envelope, manifest %d bytes) failed: %v", r.id, r.kind, want.Size, r.manifest.Size, err)
		return
	}
	if !bytes.Equal(got, s.blobs[want.Digest]) {
		s.fail("C19:fetch-bytes:"+r.how, "FetchSignatureBlob of signature #%d returned %d bytes (digest %s), pushed were %d bytes (digest %s)", r.id, len(got), digest.FromBytes(got), want.Size, want.Digest)
	}
	if gotDesc.MediaType != want.MediaType {
		s.fail("C19:fetch-mediatype:"+r.how, "signature #%d was pushed as %q and fetched as %q", r.id, want.MediaType, gotDesc.MediaType)
	}
	if !eq3(gotDesc, want) {
		s.fail("C19:fetch-descriptor:"+r.how, "fetched blob descriptor %v does not describe the envelope %v", plain(gotDesc), want)
	}
	if bytes.Equal(got, s.blobs[want.Digest]) {
		if len(s.held) >= 6 {
			s.held = s.held[1:]
		}
		s.held = append(s.held, heldEnvelope{got: got, want: want.Digest, id: r.id})
		if len(s.held) > 1 {
			s.rec.Class("fetch-while-holding-earlier-envelopes", 1)
		}
	}
}

func sizes(ds []ocispec.Descriptor) []int64 {
	var out []int64
	for _, d := range ds {
		out = append(out, d.Size)
	}
	return out
}

func (s *session) listAndFetch(x *subject, fetchAll bool, site string) {
	listed, owners, ok := s.list(x)
	if !ok || !fetchAll {
		return
	}
	for i, d := range listed {
		s.fetch(d, owners[i], s.relation(owners[i], x.desc), site)
	}
}

func (s *session) opList(rt *rapid.T) {
	x := s.pickActive("listSubject")
	fetchAll := rapid.IntRange(0, 3).Draw(rt, "fetchListed") != 0
	s.op("list %s fetch=%v", x.name, fetchAll)
	s.listAndFetch(x, fetchAll, "listed")
}

// opFetchKnown fetches by a descriptor the harness kept from the push (possibly from before a
// re-open) instead of a freshly listed one.
func (s *session) opFetchKnown(rt *rapid.T) {
	type cand struct {
		r   *referrer
		rel string
	}
	var cands []cand
	for _, r := range s.refs {
		for _, p := range s.activeSubjects() {
			if rel := s.relation(r, p.desc); rel != relUnrelated {
				cands = append(cands, cand{r, rel})
				break
			}
		}
	}
	if len(cands) == 0 {
		rt.Skip("nothing to fetch")
	}
	c := cands[rapid.IntRange(0, len(cands)-1).Draw(rt, "fetchWhich")]
	d := c.r.manifest
	if c.r.how == howAPI && rapid.Bool().Draw(rt, "asReturned") {
		d = c.r.pushedDesc
	}
	s.op("fetch #%d (%s)", c.r.id, c.r.kind)
	s.fetch(d, c.r, c.rel, "kept")
}

// ---------------------------------------------------------------------------------------------

func artifactManifest(layer, salt string) ([]byte, []byte) {
	lb := []byte("layer content " + layer)
	m := ocispec.Manifest{Versioned: specs.Versioned{SchemaVersion: 2}, MediaType: mtImage, ArtifactType: "application/vnd.example.thing",
		Config:      ocispec.DescriptorEmptyJSON,
		Layers:      []ocispec.Descriptor{{MediaType: "application/vnd.example.layer", Digest: digest.FromBytes(lb), Size: int64(len(lb))}},
		Annotations: map[string]string{"salt": salt}}
	m.Config.Data = nil
	b, _ := json.Marshal(m)
	return b, lb
}

// close removes the session's sandbox; it is deferred before anything is drawn or created, so
// that a case rapid abandons half-way (exhausted bit stream while shrinking) leaves nothing behind.
func (s *session) close() {
	if s.dir != "" {
		os.RemoveAll(s.dir)
	}
}

func (s *session) open(rt *rapid.T, rec *stats.Recorder) {
	s.rt, s.rec, s.ctx, s.blobs = rt, rec, context.Background(), map[digest.Digest][]byte{}
	s.kind = rp.Pick(rt, "store", "disk", "memory")
	salt := strings.Repeat("s", rapid.IntRange(0, 40).Draw(rt, "salt"))
	if s.kind == "disk" {
		dir, err := os.MkdirTemp("", "c19-")
		if err != nil {
			rt.Fatalf("harness: %v", err)
		}
		s.dir = dir
		st, err := oci.New(dir)
		if err != nil {
			rt.Fatalf("harness: oci.New: %v", err)
		}
		s.inner = st
	} else {
		s.inner = memory.New()
	}
	s.ls = &logStore{inner: s.inner, forbidden: map[digest.Digest]string{}}
	s.repo = registry.NewRepository(s.ls)

	// subject pool: A as an image manifest, the same bytes as a docker manifest, and B
	a, la := artifactManifest("a", salt)
	b, lb := artifactManifest("b", salt)
	mk := func(name, mt string, c []byte) *subject {
		return &subject{name: name, content: c, desc: ocispec.Descriptor{MediaType: mt, Digest: digest.FromBytes(c), Size: int64(len(c))}}
	}
	s.pool = []*subject{mk("A", mtImage, a), mk("A-as-docker", mtDocker, a), mk("B", mtImage, b)}
	s.rawPush(ocispec.MediaTypeEmptyJSON, []byte("{}"))
	s.rawPush("application/vnd.example.layer", la)
	s.rawPush("application/vnd.example.layer", lb)
}

func TestC19_Sessions(t *testing.T) {
	rec := stats.New(t, "C19", rule)
	// average session length; the push budget (12) bounds the stored state, lists and fetches
	// may go on. The default of 30 would spend most steps after the budget is used.
	_ = flag.Set("rapid.steps", "18")
	rp.Check(t, 1500, 30000, func(rt *rapid.T) {
		s := &session{}
		defer s.close()
		s.open(rt, rec)
		s.op("store %s", s.kind)
		s.pushArtifact(s.pool[rapid.IntRange(0, len(s.pool)-1).Draw(rt, "firstArtifact")])

		rt.Repeat(map[string]func(*rapid.T){
			"artifact": s.opPushArtifact,
			"sign1":    s.opPushSignature,
			"sign2":    s.opPushSignature,
			"sign3":    s.opPushSignature,
			"sign4":    s.opPushSignature,
			"foreign1": s.opPushForeign,
			"foreign2": s.opPushForeign,
			"hostile1": s.opPushHostile,
			"hostile2": s.opPushHostile,
			"list1":    s.opList,
			"list2":    s.opList,
			"fetch":    s.opFetchKnown,
			"reopen":   s.opReopen,
		})

		// every session ends with a complete check of every artifact
		for _, x := range s.activeSubjects() {
			s.op("final %s", x.name)
			s.listAndFetch(x, true, "listed")
		}

		nsub := len(s.activeSubjects())
		classes := []string{"store=" + s.kind}
		if nsub >= 2 {
			classes = append(classes, "subjects>=2")
			if s.pool[0].active && s.pool[1].active {
				classes = append(classes, "subjects-same-content")
			}
		}
		if nsub == 3 {
			classes = append(classes, "subjects=3")
		}
		if s.foreign > 0 {
			classes = append(classes, "has-foreign")
		}
		if s.hostile > 0 {
			classes = append(classes, "has-hostile")
		}
		if s.foreign > 0 && s.hostile > 0 && nsub >= 2 {
			classes = append(classes, "foreign+hostile+subjects>=2")
		}
		if s.reopened > 0 {
			classes = append(classes, "reopened")
		}
		if s.pushes >= maxPushes {
			classes = append(classes, "pushes=12")
		}
		ops := append([]string(nil), s.ops...)
		rec.Case(classes, nsub >= 2 || s.foreign > 0 || s.hostile > 0, stats.Fingerprint(strings.Join(ops, "\n")), func() any { return ops })
	})
}
