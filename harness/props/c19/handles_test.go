package c19

import (
	"bytes"
	"context"
	"fmt"
	"io"
	"os"
	"sort"
	"testing"

	"github.com/notaryproject/notation-go/registry"
	"github.com/opencontainers/go-digest"
	ocispec "github.com/opencontainers/image-spec/specs-go/v1"
	"oras.land/oras-go/v2/content/memory"
	"oras.land/oras-go/v2/content/oci"
	"pgregory.net/rapid"

	"verifharness/internal/rp"
	"verifharness/internal/stats"
)

// TestC19_LayoutHandles: the sessions of TestC19_Sessions wrap a store of their own making;
// here the repository comes from the library's own constructor for OCI layouts,
// registry.NewOCIRepository(path), and the layout is looked at through SEVERAL handles - the
// pushing one, handles opened before a push, and handles opened afterwards (what a later
// process sees). After any sequence of pushes, every handle opened after the last push lists
// for each artifact exactly the signature manifests pushed for it and fetches the identical
// envelope bytes; the pushing handle does so at any time.
type pushedSig struct {
	man  digest.Digest
	mt   string
	env  []byte
	blob digest.Digest
	// other: pushed for the second artifact (TestC19_ManySignatures)
	other bool
}

func TestC19_LayoutHandles(t *testing.T) {
	rec := stats.New(t, "C19", rule)
	rp.Check(t, 120, 6000, func(rt *rapid.T) {
		ctx := context.Background()
		dir, err := os.MkdirTemp("", "c19-handles-")
		if err != nil {
			rt.Fatalf("harness: %v", err)
		}
		defer os.RemoveAll(dir)
		// the artifacts are put into the layout with oras directly
		seedStore, err := oci.New(dir)
		if err != nil {
			rt.Fatalf("harness: oci.New: %v", err)
		}
		var subjects []ocispec.Descriptor
		for _, name := range []string{"a", "b", "c"} {
			m, layer := artifactManifest(name, "handles")
			for _, x := range []struct {
				mt string
				b  []byte
			}{{ocispec.MediaTypeEmptyJSON, []byte("{}")}, {"application/vnd.example.layer", layer}, {mtImage, m}} {
				d := ocispec.Descriptor{MediaType: x.mt, Digest: digest.FromBytes(x.b), Size: int64(len(x.b))}
				if ok, _ := seedStore.Exists(ctx, d); ok {
					continue
				}
				if err := seedStore.Push(ctx, d, bytes.NewReader(x.b)); err != nil {
					rt.Fatalf("harness: seeding the layout: %v", err)
				}
			}
			subjects = append(subjects, ocispec.Descriptor{MediaType: mtImage, Digest: digest.FromBytes(m), Size: int64(len(m))})
		}
		open := func() registry.Repository {
			r, err := registry.NewOCIRepository(dir, registry.RepositoryOptions{})
			if err != nil {
				rt.Fatalf("harness: NewOCIRepository on an intact layout: %v", err)
			}
			return r
		}
		pusher := open()
		model := map[digest.Digest][]pushedSig{}
		var ops []string
		pushes, reopens, n := 0, 0, 0
		info := func() any { return map[string]any{"ops": ops} }
		// check compares what handle h reports for every artifact with the model
		check := func(h registry.Repository, which string) {
			// which: "pushing-handle", or "fresh-handle" = a handle opened after the pushes
			for si, subj := range subjects {
				var listed []ocispec.Descriptor
				if err := h.ListSignatures(ctx, subj, func(ds []ocispec.Descriptor) error { listed = append(listed, ds...); return nil }); err != nil {
					rec.Failf(rt, "C19:handles:list-failed:"+which, info(), "ListSignatures for artifact %d through %s failed: %v", si, which, err)
					return
				}
				var got, want []string
				for _, d := range listed {
					got = append(got, d.Digest.String())
				}
				for _, p := range model[subj.Digest] {
					want = append(want, p.man.String())
				}
				sort.Strings(got)
				sort.Strings(want)
				if fmt.Sprint(got) != fmt.Sprint(want) {
					rec.Failf(rt, "C19:handles:listing-differs:"+which, info(), "artifact %d through %s: %d signatures pushed %v, listing yields %d %v", si, which, len(want), want, len(got), got)
					return
				}
				for _, p := range model[subj.Digest] {
					var md ocispec.Descriptor
					for _, d := range listed {
						if d.Digest == p.man {
							md = d
						}
					}
					env, bd, err := h.FetchSignatureBlob(ctx, md)
					if err != nil {
						rec.Failf(rt, "C19:handles:fetch-failed:"+which, info(), "fetching pushed signature %s through %s failed: %v", p.man, which, err)
						return
					}
					if !bytes.Equal(env, p.env) || bd.MediaType != p.mt || bd.Digest != p.blob {
						rec.Failf(rt, "C19:handles:fetch-differs:"+which, info(), "signature %s through %s: fetched %d bytes of %q, pushed %d bytes of %q", p.man, which, len(env), bd.MediaType, len(p.env), p.mt)
						return
					}
				}
			}
		}
		rt.Repeat(map[string]func(*rapid.T){
			"push": func(rt *rapid.T) {
				if pushes >= 8 {
					rt.Skip("push budget")
				}
				si := rapid.IntRange(0, len(subjects)-1).Draw(rt, "subject")
				mt := rp.Pick(rt, "format", mtJOSE, mtCOSE)
				n++
				env := []byte(fmt.Sprintf("envelope %d for artifact %d %s", n, si, bytes.Repeat([]byte{'x'}, rapid.IntRange(0, 300).Draw(rt, "pad"))))
				var ann map[string]string
				if rapid.Bool().Draw(rt, "annotated") {
					ann = map[string]string{"io.cncf.notary.x509chain.thumbprint#S256": fmt.Sprintf("[\"%064x\"]", n)}
				}
				bd, md, err := pusher.PushSignature(ctx, mt, env, subjects[si], ann)
				ops = append(ops, fmt.Sprintf("push(artifact %d, %s, %d bytes)", si, mt, len(env)))
				if err != nil {
					rec.Failf(rt, "C19:handles:push-failed", info(), "PushSignature of an ordinary envelope failed: %v", err)
					return
				}
				model[subjects[si].Digest] = append(model[subjects[si].Digest], pushedSig{man: md.Digest, mt: mt, env: env, blob: bd.Digest})
				pushes++
			},
			"new-pushing-handle": func(rt *rapid.T) {
				pusher = open()
				reopens++
				ops = append(ops, "new-pushing-handle")
			},
			"look-through-fresh-handle": func(rt *rapid.T) {
				ops = append(ops, "look-through-fresh-handle")
				check(open(), "fresh-handle")
			},
			"": func(rt *rapid.T) {
				check(pusher, "pushing-handle")
			},
		})
		ops = append(ops, "final-look-through-fresh-handle")
		check(open(), "fresh-handle")
		cl := []string{"layout-handles", fmt.Sprintf("handles-pushes=%d", pushes)}
		if pushes > 0 {
			cl = append(cl, "layout-listed-through-another-handle-after-push")
		}
		if reopens > 0 && pushes > 1 {
			cl = append(cl, "layout-pushed-through-several-handles")
		}
		rec.Case(cl, pushes > 0, stats.Fingerprint("c19-handles", fmt.Sprint(ops)), info)
	})
}

// TestC19_ManySignatures: the listing is exact however many signatures an artifact has. The
// sessions keep at most a dozen signatures over three artifacts; here one artifact gets up to
// 70 (another one a few), through the library's layout constructor and through
// registry.NewRepository over an in-memory store, and the listing - collected over however many
// callback invocations the library chooses - must be exactly the pushed set, each fetched
// byte-for-byte.
func TestC19_ManySignatures(t *testing.T) {
	rec := stats.New(t, "C19", rule)
	rp.Check(t, 160, 3000, func(rt *rapid.T) {
		ctx := context.Background()
		kind := rp.Pick(rt, "store", "layout", "memory")
		n := rp.Pick(rt, "signatures", 1, 7, 8, 9, 10, 15, 16, 17, 18, 31, 32, 33, rapid.IntRange(1, 70).Draw(rt, "signaturesAny"))
		other := rapid.IntRange(0, 3).Draw(rt, "signaturesOfOtherArtifact")
		var repo registry.Repository
		var seed interface {
			Push(context.Context, ocispec.Descriptor, io.Reader) error
			Exists(context.Context, ocispec.Descriptor) (bool, error)
		}
		reopen := func() registry.Repository { return repo }
		if kind == "layout" {
			dir, err := os.MkdirTemp("", "c19-many-")
			if err != nil {
				rt.Fatalf("harness: %v", err)
			}
			defer os.RemoveAll(dir)
			st, err := oci.New(dir)
			if err != nil {
				rt.Fatalf("harness: oci.New: %v", err)
			}
			seed = st
			reopen = func() registry.Repository {
				r, err := registry.NewOCIRepository(dir, registry.RepositoryOptions{})
				if err != nil {
					rt.Fatalf("harness: NewOCIRepository: %v", err)
				}
				return r
			}
		} else {
			st := memory.New()
			seed = st
			repo = registry.NewRepository(st)
		}
		var subjects []ocispec.Descriptor
		for _, name := range []string{"a", "b"} {
			m, layer := artifactManifest(name, "many")
			for _, x := range []struct {
				mt string
				b  []byte
			}{{ocispec.MediaTypeEmptyJSON, []byte("{}")}, {"application/vnd.example.layer", layer}, {mtImage, m}} {
				d := ocispec.Descriptor{MediaType: x.mt, Digest: digest.FromBytes(x.b), Size: int64(len(x.b))}
				if ok, _ := seed.Exists(ctx, d); ok {
					continue
				}
				if err := seed.Push(ctx, d, bytes.NewReader(x.b)); err != nil {
					rt.Fatalf("harness: seeding: %v", err)
				}
			}
			subjects = append(subjects, ocispec.Descriptor{MediaType: mtImage, Digest: digest.FromBytes(m), Size: int64(len(m))})
		}
		if kind == "layout" {
			repo = reopen()
		}
		want := map[digest.Digest]pushedSig{}
		info := map[string]any{"store": kind, "signatures": n, "signatures_of_other_artifact": other}
		for i := 0; i < n+other; i++ {
			subj := subjects[0]
			if i%(n/(other+1)+1) == n/(other+1) && other > 0 && len(want) > 0 && i >= n/(other+1) && countOther(want) < other {
				subj = subjects[1]
			}
			mt := []string{mtJOSE, mtCOSE}[i%2]
			env := []byte(fmt.Sprintf("envelope %d of %d", i, n))
			bd, md, err := repo.PushSignature(ctx, mt, env, subj, map[string]string{"n": fmt.Sprint(i)})
			if err != nil {
				rec.Failf(rt, "C19:many:push-failed", info, "PushSignature %d failed: %v", i, err)
			}
			want[md.Digest] = pushedSig{man: md.Digest, mt: mt, env: env, blob: bd.Digest, other: subj.Digest == subjects[1].Digest}
		}
		offSize := false
		if rapid.Bool().Draw(rt, "signatureForDescriptorSharingOnlyTheDigest") {
			// a signature pushed, through the same API, for a descriptor that shares the artifact's
			// digest but states another size: that is not this artifact (whether the push succeeds or not)
			foreign := subjects[0]
			foreign.Size++
			if _, md, err := repo.PushSignature(ctx, mtJOSE, []byte("envelope for the off-size descriptor"), foreign, nil); err == nil {
				want[md.Digest] = pushedSig{man: md.Digest, mt: mtJOSE, env: []byte("envelope for the off-size descriptor"), other: true}
			}
			offSize = true
		}
		for _, h := range []struct {
			name string
			r    registry.Repository
		}{{"pushing-handle", repo}, {"fresh-handle", nil}} {
			if h.name == "fresh-handle" {
				if offSize && kind == "layout" {
					continue // a layout holding a referrer of a descriptor that does not exist cannot be re-opened (oras)
				}
				h.r = reopen()
			}
			var listed []ocispec.Descriptor
			calls := 0
			if err := h.r.ListSignatures(ctx, subjects[0], func(ds []ocispec.Descriptor) error { calls++; listed = append(listed, ds...); return nil }); err != nil {
				rec.Failf(rt, "C19:many:list-failed:"+h.name, info, "ListSignatures failed: %v", err)
			}
			seen := map[digest.Digest]int{}
			for _, d := range listed {
				seen[d.Digest]++
				p, ok := want[d.Digest]
				if !ok || p.other {
					rec.Failf(rt, "C19:many:listed-foreign:"+h.name, info, "listing of the artifact yields %s, which was not pushed for it", d.Digest)
				}
				env, bd, err := h.r.FetchSignatureBlob(ctx, d)
				if err != nil || !bytes.Equal(env, p.env) || bd.MediaType != p.mt {
					rec.Failf(rt, "C19:many:fetch-differs:"+h.name, info, "signature %s: fetched %q (%s, err %v), pushed %q (%s)", d.Digest, env, bd.MediaType, err, p.env, p.mt)
				}
			}
			missing, repeated := 0, 0
			for dg, p := range want {
				if !p.other && seen[dg] == 0 {
					missing++
				}
				if seen[dg] > 1 {
					repeated++
				}
			}
			if missing > 0 || repeated > 0 {
				rec.Failf(rt, "C19:many:listing-differs:"+h.name, info, "%d signatures pushed for the artifact; the listing (%d callback calls, %d entries) misses %d of them and repeats %d", len(want)-countOther(want), calls, len(listed), missing, repeated)
			}
		}
		cl := []string{"many-signatures", "many-store=" + kind}
		if offSize {
			cl = append(cl, "signature-pushed-for-descriptor-sharing-only-the-digest")
		}
		switch {
		case n >= 33:
			cl = append(cl, "signatures-of-one-artifact>=33")
		case n >= 9:
			cl = append(cl, "signatures-of-one-artifact>=9")
		}
		rec.Case(cl, n >= 2, stats.Fingerprint("c19-many", kind, n, other), func() any { return info })
	})
}

func countOther(m map[digest.Digest]pushedSig) int {
	c := 0
	for _, p := range m {
		if p.other {
			c++
		}
	}
	return c
}
