// C02 — the verification level alone decides which failed validations reject.
// Oracle: decision model written from the statement + model-independent relations
// (monotonicity, action tagging, call logs). DESIGN.md section 5, C02.
package c02

import (
	"context"
	"errors"
	"fmt"
	"sync"
	"testing"
	"time"

	"github.com/notaryproject/notation-core-go/revocation/result"
	"github.com/notaryproject/notation-go"
	"github.com/notaryproject/notation-go/verifier"
	pf "github.com/notaryproject/notation-plugin-framework-go/plugin"
	"github.com/opencontainers/go-digest"
	ocispec "github.com/opencontainers/image-spec/specs-go/v1"
	"pgregory.net/rapid"

	"verifharness/internal/envb"
	"verifharness/internal/kit"
	"verifharness/internal/mocks"
	"verifharness/internal/pki"
	"verifharness/internal/rp"
	"verifharness/internal/stats"
)

const rule = "scenario = (enforcement map via base+override, scheme, format, trust, identity, expiry, certificate time, revocation script, plugin situation, verdicts, critical attribute); non-trivial = at least one validation fails or a plugin is demanded; distinct by the scenario tuple"

// Scen is one scenario (also the replay format).
type Scen struct {
	Level     kit.Level `json:"level"`
	Scheme    string    `json:"scheme"`   // x509 | sa
	Format    string    `json:"format"`   // media type
	Trust     string    `json:"trust"`    // found absent empty loaderr
	Identity  string    `json:"identity"` // wildcard match mismatch nonx509
	Expiry    string    `json:"expiry"`   // none future past
	CertTime  string    `json:"certTime"` // valid leafexpired cafuture
	Rev       string    `json:"rev"`      // ok revoked unknown error
	Plugin    string    `json:"plugin"`   // none nilmgr notinstalled metaerr badver toolow toolow-prerelease minver-malformed minver-notcritical nocap ti rev both
	MinVer    string    `json:"minVer"`
	TIVerdict string    `json:"tiVerdict"` // success failure missing
	RVVerdict string    `json:"rvVerdict"`
	PluginErr bool      `json:"pluginErr"`
	Crit      string    `json:"crit"`     // none processed unprocessed
	CritInt   bool      `json:"critInt"`  // COSE integer-keyed critical attribute
	// CritKeyKind: "" an unrelated key; "header-prefix" a key that merely STARTS like one of
	// notation's own verification-plugin headers (it is still somebody else's attribute)
	CritKeyKind string `json:"critKeyKind,omitempty"`
	CapOrder  int       `json:"capOrder"` // order in which the plugin declares its capabilities
	// Filler: NON-critical extended attributes placed before / after the others; they never
	// decide anything, whether or not the plugin lists them as processed (finding F17)
	Filler          string `json:"filler,omitempty"` // "" before after both
	FillerProcessed bool   `json:"fillerProcessed,omitempty"`
	// BlobTwin: the verifier also carries a blob policy whose statement has the SAME NAME as the
	// OCI statement but this (other) level, and the judged envelope is first verified as a blob
	// under it; statement names are only unique within one document
	BlobTwin string `json:"blobTwin,omitempty"` // "" strict permissive audit skip
	// MoreStores: the statement lists further stores of the required type around "x". They load
	// fine; when "x" cannot be loaded the later/earlier one even holds the signer's root (a
	// store that cannot be loaded fails authenticity whatever the other stores hold), otherwise
	// they hold an unrelated root. "" none, "after", "before", "around"
	MoreStores string `json:"moreStores,omitempty"`
	// SharedMeta: the in-process plugin answers every get-plugin-metadata call with the same
	// capability slice (what it was lent back must not have been changed by an earlier verification)
	SharedMeta bool `json:"sharedMeta,omitempty"`
	// Warm: an earlier verification on the SAME verifier with another envelope (other expiry /
	// certificate times / attributes); it is not judged and must not influence the judged one
	Warm *Warm `json:"warm,omitempty"`
}

// Warm describes the envelope of the warm-up verification.
type Warm struct {
	Expiry   string `json:"expiry"`
	CertTime string `json:"certTime"`
	Plugin   bool   `json:"plugin"`
	Crit     bool   `json:"crit"`
	Format   string `json:"format"`
}

func (s *Scen) fp() uint64 {
	return stats.Fingerprint(s.Level.Key(), s.Level.String(), s.Scheme, s.Format, s.Trust, s.Identity, s.Expiry, s.CertTime, s.Rev, s.Plugin, s.MinVer, s.TIVerdict, s.RVVerdict, s.PluginErr, s.Crit, s.CritInt, s.CritKeyKind, s.CapOrder, s.Filler, s.FillerProcessed, s.BlobTwin, s.MoreStores, s.SharedMeta, fmt.Sprintf("%+v", s.Warm))
}

const pluginName = "verif-plugin"
const pluginVersion = "1.5.0"
const critKey = "com.example.verif.critical"

// critKeyOf is the (string) key of the scenario's extra critical attribute.
func critKeyOf(s *Scen) string {
	switch s.CritKeyKind {
	case "header-prefix":
		return envb.AttrPlugin + "Config"
	case "minver-prefix":
		return envb.AttrPluginMinVer + ".next"
	}
	return critKey
}
const critIntKey = int64(-70001)
const fillerKey = "com.example.verif.optional"

// ---- chains (minted once per process; margins of 12 h around the wall clock) ----

var (
	chainOnce sync.Once
	chains    map[string]*pki.Chain
	otherRoot *pki.Cert
)

func getChain(certTime string) *pki.Chain {
	chainOnce.Do(func() {
		now := time.Now()
		chains = map[string]*pki.Chain{
			"valid": pki.NewChain(pki.ChainOpts{Intermediates: 1, Name: "c02"}),
			"leafexpired": pki.NewChain(pki.ChainOpts{Intermediates: 1, Name: "c02",
				Windows: map[int][2]time.Time{0: {now.Add(-72 * time.Hour), now.Add(-12 * time.Hour)}}}),
			"cafuture": pki.NewChain(pki.ChainOpts{Intermediates: 1, Name: "c02",
				Windows: map[int][2]time.Time{1: {now.Add(12 * time.Hour), now.Add(72 * time.Hour)}}}),
		}
		otherRoot = pki.NewChain(pki.ChainOpts{Name: "unrelated"}).Root()
	})
	return chains[certTime]
}

// ---- the model (from the statement) ----

// Verdict of the model: accept, and which validation types must appear failed-but-logged.
type verdict struct {
	accept   bool
	why      string
	failed   map[string]bool // validation type -> failed (only meaningful when accept)
	reported map[string]bool // validation type -> must be reported in the outcome (when accept)
	pluginRV bool            // revocation capability expected to be sent to the plugin
	pluginTI bool
	executed bool
}

func model(s *Scen) verdict {
	E := s.Level.Effective()
	v := verdict{failed: map[string]bool{}, reported: map[string]bool{"authenticity": true, "expiry": true, "authenticTimestamp": true}}
	hasTI, hasRV := false, false
	switch s.Plugin {
	case "none":
	case "ti":
		hasTI = true
	case "rev":
		hasRV = true
	case "both":
		hasTI, hasRV = true, true
	default:
		// missing, unusable, too old, without verification capability, or a minimum version
		// that cannot be established
		return verdict{accept: false, why: "plugin-" + s.Plugin}
	}
	// authenticity = trust anchor + (native) identity unless the plugin owns identity
	authFail := s.Trust != "found"
	if !hasTI && (s.Identity == "mismatch" || s.Identity == "nonx509") {
		authFail = true
	}
	revPerformedNatively := E["revocation"] != "skip" && !hasRV
	revByPlugin := E["revocation"] != "skip" && hasRV
	v.pluginTI, v.pluginRV = hasTI, revByPlugin
	v.executed = hasTI || revByPlugin
	// enforced failures
	if authFail && E["authenticity"] == "enforce" {
		return verdict{why: "authenticity"}
	}
	if s.Expiry == "past" && E["expiry"] == "enforce" {
		return verdict{why: "expiry"}
	}
	if s.CertTime != "valid" && E["authenticTimestamp"] == "enforce" {
		return verdict{why: "authenticTimestamp"}
	}
	if revPerformedNatively && s.Rev != "ok" && E["revocation"] == "enforce" {
		return verdict{why: "revocation"}
	}
	if v.executed {
		if s.PluginErr {
			return verdict{why: "plugin-call-error"}
		}
		if s.Crit == "unprocessed" {
			return verdict{why: "critical-attribute-unprocessed"}
		}
		if hasTI {
			switch s.TIVerdict {
			case "missing":
				return verdict{why: "verdict-missing"}
			case "failure":
				authFail = true
				if E["authenticity"] == "enforce" {
					return verdict{why: "plugin-identity"}
				}
			}
		}
		if revByPlugin {
			switch s.RVVerdict {
			case "missing":
				return verdict{why: "verdict-missing"}
			case "failure":
				v.failed["revocation"] = true
				if E["revocation"] == "enforce" {
					return verdict{why: "plugin-revocation"}
				}
			}
		}
	}
	if s.Crit != "none" && !(v.executed && s.Crit == "processed") {
		// a critical extended attribute that nothing processes must never be accepted
		if s.Plugin == "none" {
			return verdict{why: "critical-attribute-no-plugin"}
		}
		// the demanded plugin is usable but is not executed (its only capability is the
		// revocation check and the level skips revocation)
		return verdict{why: "critical-attribute-plugin-not-executed"}
	}
	v.accept = true
	v.failed["authenticity"] = authFail
	v.failed["expiry"] = s.Expiry == "past"
	v.failed["authenticTimestamp"] = s.CertTime != "valid"
	if revPerformedNatively {
		v.reported["revocation"] = true
		v.failed["revocation"] = s.Rev != "ok"
	}
	if revByPlugin {
		v.reported["revocation"] = true
	}
	return v
}

// ---- realisation ----

type run struct {
	accepted bool
	err      error
	out      *notation.VerificationOutcome
	rev      *mocks.Revocation
	plug     *mocks.Plugin
	mgr      *mocks.Manager
	ts       *mocks.TrustStore
	env      []byte
}

var desc = kit.Artifact("c02")

func realise(s *Scen) (*run, error) {
	now := time.Now()
	ch := getChain(s.CertTime)
	scheme, storeType := envb.SchemeX509, "ca"
	if s.Scheme == "sa" {
		scheme, storeType = envb.SchemeSA, "signingAuthority"
	}
	spec := envb.Spec{Format: s.Format, Payload: envb.PayloadFor(desc.MediaType, desc.Digest.String(), desc.Size, nil), ContentType: envb.PayloadType,
		Scheme: scheme, SigningTime: now.Add(-time.Hour), Chain: ch.X509(), Key: ch.Leaf().Key}
	switch s.Expiry {
	case "future":
		spec.Expiry = now.Add(6 * time.Hour)
	case "past":
		spec.Expiry = now.Add(-30 * time.Minute)
	}
	if s.Filler == "before" || s.Filler == "both" {
		spec.Ext = append(spec.Ext, envb.Attr{Key: fillerKey + ".a", Critical: false, Value: "f"})
	}
	if s.Plugin != "none" {
		spec.Ext = append(spec.Ext, envb.Attr{Key: envb.AttrPlugin, Critical: true, Value: pluginName})
		if s.MinVer != "" {
			spec.Ext = append(spec.Ext, envb.Attr{Key: envb.AttrPluginMinVer, Critical: s.Plugin != "minver-notcritical", Value: s.MinVer})
		}
	}
	if s.Crit != "none" {
		if s.CritInt {
			spec.Ext = append(spec.Ext, envb.Attr{Key: critIntKey, Critical: true, Value: "v"})
		} else {
			spec.Ext = append(spec.Ext, envb.Attr{Key: critKeyOf(s), Critical: true, Value: "v"})
		}
	}
	if s.Filler == "after" || s.Filler == "both" {
		spec.Ext = append(spec.Ext, envb.Attr{Key: fillerKey + ".z", Critical: false, Value: "f"})
	}
	env := envb.Build(spec)

	ts := mocks.NewTrustStore()
	switch s.Trust {
	case "found":
		ts.Put(storeType, "x", otherRoot.Cert, ch.Root().Cert)
	case "absent":
		ts.Put(storeType, "x", otherRoot.Cert)
	case "empty":
		ts.PutEmpty(storeType, "x")
	case "loaderr":
		ts.Fail(storeType, "x", errors.New("scripted load error"))
	}
	ids := map[string]string{"wildcard": "*", "match": "x509.subject:C=US,ST=WA,O=verif", "mismatch": "x509.subject:C=US,ST=WA,O=somebody else", "nonx509": "other.scheme:thing"}
	stores := []string{storeType + ":x"}
	if s.MoreStores != "" {
		if s.Trust == "loaderr" {
			ts.Put(storeType, "before", ch.Root().Cert)
			ts.Put(storeType, "after", ch.Root().Cert)
		} else {
			ts.Put(storeType, "before", otherRoot.Cert)
			ts.Put(storeType, "after", otherRoot.Cert)
		}
		switch s.MoreStores {
		case "after":
			stores = append(stores, storeType+":after")
		case "before":
			stores = append([]string{storeType + ":before"}, stores...)
		case "around":
			stores = append(append([]string{storeType + ":before"}, stores...), storeType+":after")
		}
	}
	doc := kit.OCIDoc("p", s.Level.SV(""), stores, []string{ids[s.Identity]})
	rev := &mocks.Revocation{}
	switch s.Rev {
	case "revoked":
		rev.Results = []result.Result{result.ResultRevoked}
	case "unknown":
		rev.Results = []result.Result{result.ResultOK, result.ResultOK, result.ResultUnknown}
	case "error":
		rev.Err = errors.New("scripted validator error")
		rev.ErrWithResults = s.CapOrder%2 == 1
	}
	plug := &mocks.Plugin{Name: pluginName, Version: pluginVersion, SharedMeta: s.SharedMeta, Verdicts: map[pf.Capability]string{
		pf.CapabilityTrustedIdentityVerifier: s.TIVerdict, pf.CapabilityRevocationCheckVerifier: s.RVVerdict}}
	if s.PluginErr {
		plug.VerifyErr = errors.New("scripted plugin failure")
	}
	if s.Crit == "processed" {
		if s.CritInt {
			plug.Processed = []any{critIntKey}
		} else {
			plug.Processed = []any{critKeyOf(s)}
		}
	}
	if s.Filler != "" && s.FillerProcessed {
		plug.Processed = append(plug.Processed, fillerKey+".a", fillerKey+".z")
	}
	mgr := &mocks.Manager{Plugins: map[string]notationPlugin{pluginName: plug}}
	opts := kit.Options()
	opts.OCITrustPolicy = doc
	opts.RevocationCodeSigningValidator = rev
	switch s.Plugin {
	case "none", "nilmgr":
	case "notinstalled":
		mgr.Plugins = map[string]notationPlugin{}
		opts.PluginManager = mgr
	default:
		opts.PluginManager = mgr
		switch s.Plugin {
		case "metaerr":
			plug.MetaErr = errors.New("scripted metadata failure")
		case "badver":
			plug.Version = "1.5"
			plug.Capabilities = []pf.Capability{pf.CapabilityTrustedIdentityVerifier}
		case "toolow", "toolow-prerelease", "minver-malformed", "minver-notcritical":
			plug.Capabilities = []pf.Capability{pf.CapabilityTrustedIdentityVerifier, pf.CapabilityRevocationCheckVerifier}
			if s.Plugin == "toolow-prerelease" {
				plug.Version = "1.5.0-rc.1"
			}
		case "nocap":
			plug.Capabilities = []pf.Capability{pf.CapabilitySignatureGenerator, pf.CapabilityEnvelopeGenerator}
		case "ti":
			plug.Capabilities = []pf.Capability{pf.CapabilityTrustedIdentityVerifier, pf.CapabilitySignatureGenerator}
		case "rev":
			plug.Capabilities = []pf.Capability{pf.CapabilityRevocationCheckVerifier}
		case "both":
			plug.Capabilities = []pf.Capability{pf.CapabilityRevocationCheckVerifier, pf.CapabilityTrustedIdentityVerifier}
		}
		// the order (and the company of signing capabilities) in which a plugin declares its
		// capabilities must not matter
		switch s.CapOrder % 3 {
		case 1:
			for i, j := 0, len(plug.Capabilities)-1; i < j; i, j = i+1, j-1 {
				plug.Capabilities[i], plug.Capabilities[j] = plug.Capabilities[j], plug.Capabilities[i]
			}
		case 2:
			rev := append([]pf.Capability{pf.CapabilityEnvelopeGenerator}, plug.Capabilities...)
			for i, j := 1, len(rev)-1; i < j; i, j = i+1, j-1 {
				rev[i], rev[j] = rev[j], rev[i]
			}
			plug.Capabilities = rev
		}
	}
	if s.BlobTwin != "" {
		twinIDs := []string{ids[s.Identity]}
		if s.BlobTwin == "skip" {
			opts.BlobTrustPolicy = kit.BlobDoc("p", kit.Level{Base: "skip"}.SV(""), nil, nil)
		} else if s.BlobTwin == "strict-revocation-skipped" {
			opts.BlobTrustPolicy = kit.BlobDoc("p", kit.LevelFor("strict", map[string]string{"authenticity": "enforce", "authenticTimestamp": "enforce", "expiry": "enforce", "revocation": "skip"}, false).SV(""), []string{storeType + ":x"}, twinIDs)
		} else {
			opts.BlobTrustPolicy = kit.BlobDoc("p", kit.Level{Base: s.BlobTwin}.SV(""), []string{storeType + ":x"}, twinIDs)
		}
	}
	v, err := verifier.NewVerifierWithOptions(ts, opts)
	if err != nil {
		return nil, fmt.Errorf("harness: verifier construction failed: %v", err)
	}
	if s.BlobTwin != "" {
		v.VerifyBlob(context.Background(), func(digest.Algorithm) (ocispec.Descriptor, error) { return desc, nil }, env,
			notation.BlobVerifierVerifyOptions{SignatureMediaType: s.Format, TrustPolicyName: "p"})
		rev.Calls, plug.VerifyCalls, plug.MetaCalls, mgr.Gets, ts.Calls = nil, nil, 0, nil, nil
	}
	if s.Warm != nil {
		wch := getChain(s.Warm.CertTime)
		ws := envb.Spec{Format: s.Warm.Format, Payload: spec.Payload, ContentType: envb.PayloadType, Scheme: scheme, SigningTime: now.Add(-2 * time.Hour), Chain: wch.X509(), Key: wch.Leaf().Key}
		switch s.Warm.Expiry {
		case "future":
			ws.Expiry = now.Add(6 * time.Hour)
		case "past":
			ws.Expiry = now.Add(-30 * time.Minute)
		}
		if s.Warm.Plugin {
			ws.Ext = append(ws.Ext, envb.Attr{Key: envb.AttrPlugin, Critical: true, Value: pluginName})
		}
		if s.Warm.Crit {
			ws.Ext = append(ws.Ext, envb.Attr{Key: critKey, Critical: true, Value: "w"})
		}
		v.Verify(context.Background(), desc, envb.Build(ws), notation.VerifierVerifyOptions{ArtifactReference: kit.Reference(desc), SignatureMediaType: s.Warm.Format})
		// forget what the warm-up did to the collaborators
		rev.Calls, plug.VerifyCalls, plug.MetaCalls, mgr.Gets, ts.Calls = nil, nil, 0, nil, nil
	}
	out, verr := v.Verify(context.Background(), desc, env, notation.VerifierVerifyOptions{ArtifactReference: kit.Reference(desc), SignatureMediaType: s.Format})
	return &run{accepted: verr == nil, err: verr, out: out, rev: rev, plug: plug, mgr: mgr, ts: ts, env: env}, nil
}

type notationPlugin = pf.Plugin

type unusedPluginIface interface {
	pf.SignPlugin
	pf.VerifyPlugin
}

// check runs a scenario and returns (finding key, message).
func check(s *Scen) (string, string, *run, verdict) {
	want := model(s)
	r, herr := realise(s)
	if herr != nil {
		return "harness", herr.Error(), nil, want
	}
	if underspecified(s) {
		// the statement does not say what a minimum version / plugin version that is not a
		// semantic version means: both outcomes are accepted, nothing further is asserted
		return "", "", r, want
	}
	if r.out == nil {
		return "C02:nil-outcome", fmt.Sprintf("Verify returned a nil outcome (err=%v)", r.err), r, want
	}
	// integrity must have passed (precondition of the statement); otherwise the harness is broken
	if len(r.out.VerificationResults) == 0 || r.out.VerificationResults[0].Type != "integrity" || r.out.VerificationResults[0].Error != nil {
		// the statement speaks of signatures that pass integrity: when the harness's own verifier
		// confirms that the envelope is intact, a failed (or missing) integrity result is the
		// library's doing - e.g. another validation's failure booked on the integrity result
		if _, ierr := envb.IndependentVerify(s.Format, r.env); ierr == nil {
			return "C02:results:integrity-failed-for-intact-envelope", fmt.Sprintf("the envelope is intact (own verifier), yet the outcome's first result is not a passed integrity validation: %v", r.err), r, want
		}
		return "harness", fmt.Sprintf("harness: envelope did not pass integrity: %v", r.err), r, want
	}
	if want.accept != r.accepted {
		key := "C02:decision:model-" + map[bool]string{true: "accepts", false: "rejects"}[want.accept] + ":" + want.why
		if want.accept {
			key = "C02:decision:model-accepts"
		}
		return key, fmt.Sprintf("model: accept=%v (%s); library: accept=%v err=%v", want.accept, want.why, r.accepted, r.err), r, want
	}
	E := s.Level.Effective()
	// action tagging: every reported result carries the action the level assigns to its type
	seen := map[string]int{}
	for _, vr := range r.out.VerificationResults {
		typ := string(vr.Type)
		seen[typ]++
		wantAct := E[typ]
		if typ == "integrity" {
			wantAct = "enforce"
		}
		if string(vr.Action) != wantAct {
			return "C02:action-tag:" + typ, fmt.Sprintf("result of type %s carries action %q, the level assigns %q", typ, vr.Action, wantAct), r, want
		}
	}
	// skipped revocation is not performed at all
	if E["revocation"] == "skip" {
		if r.rev.NumCalls() > 0 {
			return "C02:skip-revocation:native-validator-called", "revocation is skip but the native validator was consulted", r, want
		}
		for _, c := range r.plug.RequestedCapabilities() {
			if c == pf.CapabilityRevocationCheckVerifier {
				return "C02:skip-revocation:sent-to-plugin", "revocation is skip but the plugin was asked for a revocation verdict", r, want
			}
		}
		if seen["revocation"] > 0 {
			return "C02:skip-revocation:result-reported", "revocation is skip but a revocation result is reported", r, want
		}
	}
	if r.accepted {
		// a capability the plugin declares replaces the native check
		if want.pluginRV && r.rev.NumCalls() > 0 {
			return "C02:capability-routing:native-revocation-despite-plugin", "plugin owns revocation but the native validator was consulted", r, want
		}
		if want.pluginRV || want.pluginTI {
			caps := r.plug.RequestedCapabilities()
			has := func(c pf.Capability) bool {
				for _, x := range caps {
					if x == c {
						return true
					}
				}
				return false
			}
			if want.pluginTI != has(pf.CapabilityTrustedIdentityVerifier) || want.pluginRV != has(pf.CapabilityRevocationCheckVerifier) {
				return "C02:capability-routing:requested-capabilities", fmt.Sprintf("plugin was asked for %v; model expects identity=%v revocation=%v", caps, want.pluginTI, want.pluginRV), r, want
			}
		}
		if !want.executed && len(r.plug.VerifyCalls) > 0 {
			return "C02:capability-routing:plugin-executed-without-capability", "plugin executed although nothing was to be verified by it", r, want
		}
		// every performed validation appears exactly once; failed+log has Error set, passed has none
		for typ := range want.reported {
			if seen[typ] != 1 {
				return "C02:results:" + typ + "-count", fmt.Sprintf("validation %s reported %d times in an accepted outcome", typ, seen[typ]), r, want
			}
		}
		for _, vr := range r.out.VerificationResults {
			typ := string(vr.Type)
			if typ == "integrity" {
				continue
			}
			if !want.reported[typ] {
				return "C02:results:unexpected-" + typ, fmt.Sprintf("validation %s reported although it was not performed", typ), r, want
			}
			if want.failed[typ] && vr.Error == nil {
				return "C02:results:logged-failure-not-reported:" + typ, fmt.Sprintf("validation %s failed (action log) but the outcome carries no error for it", typ), r, want
			}
			if !want.failed[typ] && vr.Error != nil {
				return "C02:results:spurious-error:" + typ, fmt.Sprintf("validation %s passed by the model but the outcome reports %v", typ, vr.Error), r, want
			}
		}
		if r.out.Error != nil {
			return "C02:results:outcome-error-on-accept", "accepted outcome has Error set", r, want
		}
	}
	return "", "", r, want
}

func underspecified(s *Scen) bool {
	return s.Plugin == "minver-malformed" || s.Plugin == "minver-notcritical" || s.Plugin == "badver"
}

func classes(s *Scen, v verdict) []string {
	cl := []string{"accept"}
	if !v.accept {
		cl = []string{"reject", "why=" + v.why}
	}
	if underspecified(s) {
		cl = []string{"underspecified-either-outcome"}
	}
	cl = append(cl, "scheme="+s.Scheme, "format="+s.Format, "trust="+s.Trust, "identity="+s.Identity, "expiry="+s.Expiry,
		"certtime="+s.CertTime, "rev="+s.Rev, "plugin-situation="+s.Plugin, "crit="+s.Crit, "map="+s.Level.Key(), "base="+s.Level.Base)
	if s.Plugin != "none" {
		cl = append(cl, "plugin")
	}
	if s.Level.Effective()["revocation"] == "skip" {
		cl = append(cl, "rev=skip")
	}
	if v.accept {
		for _, f := range v.failed {
			if f {
				cl = append(cl, "logged-failure")
				break
			}
		}
	}
	if s.CritInt && s.Crit != "none" {
		cl = append(cl, "crit-int-key")
	}
	if s.CritKeyKind != "" && s.Crit != "none" {
		cl = append(cl, "crit-key-extends-plugin-header-name")
	}
	if s.Warm != nil {
		cl = append(cl, "reused-verifier")
	}
	if s.BlobTwin != "" {
		cl = append(cl, "blob-statement-with-same-name", "blob-twin-level="+s.BlobTwin)
	}
	if s.SharedMeta && s.Plugin != "none" {
		cl = append(cl, "plugin-answers-metadata-with-one-shared-slice")
	}
	if s.MoreStores != "" {
		cl = append(cl, "several-listed-stores")
		if s.Trust == "loaderr" {
			cl = append(cl, "unloadable-store-beside-a-store-holding-the-root")
		}
	}
	if s.Filler != "" {
		cl = append(cl, "noncritical-attr-"+s.Filler)
		if !s.FillerProcessed && s.Plugin != "none" {
			cl = append(cl, "noncritical-attr-not-reported-by-plugin")
		}
	}
	return cl
}

func nontrivial(s *Scen) bool {
	return s.Trust != "found" || s.Identity == "mismatch" || s.Identity == "nonx509" || s.Expiry == "past" || s.CertTime != "valid" || s.Rev != "ok" || s.Plugin != "none" || s.Crit != "none"
}

func evaluate(t stats.Failer, rec *stats.Recorder, s *Scen) {
	key, msg, _, want := check(s)
	rec.Case(classes(s, want), nontrivial(s), s.fp(), func() any { return s })
	if key == "harness" {
		t.Fatalf("%s (scenario %+v)", msg, *s)
	}
	if key != "" {
		rec.Failf(t, key, s, "%s", msg)
	}
}

// TestC02_Grid enumerates the complete no-plugin grid.
func TestC02_Grid(t *testing.T) {
	rec := stats.New(t, "C02", rule)
	var rs Scen
	if rp.ReplayCase(&rs) {
		evaluate(t, rec, &rs)
		return
	}
	shard, shards := stats.Shard()
	idx := 0
	bases := []string{"strict", "permissive", "audit"}
	for mi, target := range kit.AllMaps() {
		for _, trust := range []string{"found", "absent", "empty", "loaderr"} {
			for _, id := range []string{"wildcard", "match", "mismatch", "nonx509"} {
				for _, exp := range []string{"none", "future", "past"} {
					for _, ct := range []string{"valid", "leafexpired", "cafuture"} {
						for _, rv := range []string{"ok", "revoked", "unknown", "error"} {
							idx++
							if idx%shards != shard {
								continue
							}
							// rotate base level, scheme and format so that every map is reached from
							// every base and both schemes/formats over the grid
							s := &Scen{Level: kit.LevelFor(bases[(idx+mi)%3], target, idx%5 == 0), Scheme: []string{"x509", "sa"}[(idx/3)%2],
								Format: envb.Formats[(idx/7)%2], Trust: trust, Identity: id, Expiry: exp, CertTime: ct, Rev: rv, Plugin: "none",
								TIVerdict: "success", RVVerdict: "success", Crit: "none"}
							evaluate(t, rec, s)
						}
					}
				}
			}
		}
	}
	rec.Exhaustive()
}

func drawScen(rt *rapid.T) *Scen {
	s := &Scen{
		Level:     kit.DrawLevel(rt),
		Scheme:    rp.Pick(rt, "scheme", "x509", "sa"),
		Format:    rp.Pick(rt, "format", envb.MTJWS, envb.MTCOSE),
		Trust:     rp.Pick(rt, "trust", "found", "found", "found", "found", "found", "found", "found", "absent", "empty", "loaderr"),
		Identity:  rp.Pick(rt, "identity", "wildcard", "match", "match", "match", "wildcard", "mismatch", "nonx509"),
		Expiry:    rp.Pick(rt, "expiry", "none", "future", "future", "none", "past"),
		CertTime:  rp.Pick(rt, "certTime", "valid", "valid", "valid", "valid", "valid", "leafexpired", "cafuture"),
		Rev:       rp.Pick(rt, "rev", "ok", "ok", "ok", "ok", "ok", "ok", "revoked", "unknown", "error"),
		Plugin:    rp.Pick(rt, "plugin", "none", "none", "nilmgr", "notinstalled", "metaerr", "badver", "toolow", "toolow-prerelease", "minver-malformed", "minver-notcritical", "nocap", "ti", "ti", "ti", "rev", "rev", "rev", "both", "both", "both", "both", "both"),
		TIVerdict: rp.Pick(rt, "tiVerdict", "success", "success", "success", "success", "failure", "missing"),
		RVVerdict: rp.Pick(rt, "rvVerdict", "success", "success", "success", "success", "failure", "missing"),
		PluginErr: rapid.IntRange(0, 15).Draw(rt, "pluginErr") == 0,
		Crit:      rp.Pick(rt, "crit", "none", "none", "processed", "unprocessed"),
		CapOrder:  rapid.IntRange(0, 2).Draw(rt, "capOrder"),
	}
	if s.Crit != "none" && s.Format == envb.MTCOSE {
		s.CritInt = rapid.IntRange(0, 2).Draw(rt, "critIntKey") == 0
	}
	if s.Crit != "none" && !s.CritInt {
		s.CritKeyKind = rp.Pick(rt, "critKeyKind", "", "", "header-prefix", "minver-prefix")
	}
	s.Filler = rp.Pick(rt, "filler", "", "", "", "before", "after", "both")
	s.BlobTwin = rp.Pick(rt, "blobTwin", "", "", "", "", "strict", "permissive", "audit", "skip", "strict-revocation-skipped", "strict-revocation-skipped")
	s.SharedMeta = rapid.Bool().Draw(rt, "sharedMeta")
	s.FillerProcessed = s.Filler != "" && rapid.Bool().Draw(rt, "fillerProcessed")
	s.MoreStores = rp.Pick(rt, "moreStores", "", "", "", "after", "after", "before", "around")
	if rapid.IntRange(0, 3).Draw(rt, "warm") == 0 {
		s.Warm = &Warm{Expiry: rp.Pick(rt, "wExpiry", "none", "future", "past"), CertTime: rp.Pick(rt, "wCertTime", "valid", "leafexpired", "cafuture"),
			Plugin: rapid.Bool().Draw(rt, "wPlugin"), Crit: rapid.IntRange(0, 3).Draw(rt, "wCrit") == 0, Format: rp.Pick(rt, "wFormat", envb.MTJWS, envb.MTCOSE)}
	}
	switch s.Plugin {
	case "none":
	case "toolow":
		s.MinVer = rp.Pick(rt, "minVer", "2.0.0", "1.5.1", "1.10.0", "1.5.0+build")
		if s.MinVer == "1.5.0+build" { // build metadata does not raise precedence: not too low
			s.MinVer = "1.6.0-alpha"
		}
	case "toolow-prerelease":
		s.MinVer = rp.Pick(rt, "minVer", "1.5.0", "1.5.0-rc.2", "1.5.0-rc.10")
	case "minver-malformed":
		s.MinVer = rp.Pick(rt, "minVer", "1.5", "v1.0.0", " ", "one")
	case "minver-notcritical":
		s.MinVer = "1.0.0"
	default:
		s.MinVer = rp.Pick(rt, "minVer", "", "1.0.0", "1.5.0", "1.5.0-rc.1", "0.9.9", "1.4.99", "1.5.0-0")
	}
	return s
}

// TestC02_Random samples the full product including plugin situations.
func TestC02_Random(t *testing.T) {
	rec := stats.New(t, "C02", rule)
	rp.Check(t, 12000, 2000000, func(rt *rapid.T) {
		evaluate(rt, rec, drawScen(rt))
	})
}

// TestC02_Monotone checks, without the model, that acceptance is monotone in the level:
// accepted under a map E implies accepted under every pointwise weaker map.
func TestC02_Monotone(t *testing.T) {
	rec := stats.New(t, "C02", rule+"; monotonicity: pairs (scenario, weaker map)")
	rp.Check(t, 4000, 400000, func(rt *rapid.T) {
		s := drawScen(rt)
		maps := kit.AllMaps()
		strong := s.Level.Effective()
		var weaker []map[string]string
		for _, m := range maps {
			if kit.WeakerOrEqual(strong, m) {
				weaker = append(weaker, m)
			}
		}
		w := weaker[rapid.IntRange(0, len(weaker)-1).Draw(rt, "weakerMap")]
		s2 := *s
		s2.Level = kit.LevelFor(rp.Pick(rt, "weakerBase", "strict", "permissive", "audit"), w, false)
		r1, e1 := realise(s)
		r2, e2 := realise(&s2)
		if e1 != nil || e2 != nil {
			rt.Fatalf("harness: %v %v", e1, e2)
		}
		cl := []string{"monotone-pair"}
		if r1.accepted {
			cl = append(cl, "monotone-strong-accepted")
		}
		rec.Case(cl, nontrivial(s), stats.Fingerprint(s.fp(), s2.Level.Key()), func() any { return map[string]any{"scenario": s, "weaker": s2.Level} })
		if r1.accepted && !r2.accepted {
			rec.Failf(rt, "C02:monotonicity", map[string]any{"scenario": s, "weaker": s2.Level},
				"accepted under %s but rejected under the weaker %s: %v", s.Level.Key(), s2.Level.Key(), r2.err)
		}
	})
	// the named chain strict => permissive => audit
	rp.Check(t, 2000, 200000, func(rt *rapid.T) {
		s := drawScen(rt)
		acc := map[string]bool{}
		var errs = map[string]error{}
		for _, b := range []string{"strict", "permissive", "audit"} {
			s2 := *s
			s2.Level = kit.Level{Base: b}
			r, e := realise(&s2)
			if e != nil {
				rt.Fatalf("harness: %v", e)
			}
			acc[b], errs[b] = r.accepted, r.err
		}
		rec.Case([]string{"monotone-named-levels"}, nontrivial(s), stats.Fingerprint("named", s.fp()), nil)
		if (acc["strict"] && !acc["permissive"]) || (acc["permissive"] && !acc["audit"]) {
			rec.Failf(rt, "C02:monotonicity:named-levels", s, "strict=%v permissive=%v audit=%v (%v / %v)", acc["strict"], acc["permissive"], acc["audit"], errs["permissive"], errs["audit"])
		}
	})
}
