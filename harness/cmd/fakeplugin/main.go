package main

import (
	"bufio"
	"encoding/json"
	"io"
	"os"
	"os/exec"
	"path/filepath"
	"time"
)

type behaviour struct {
	Exit       int    `json:"exit"`
	Stdout     string `json:"stdout"`
	Stderr     string `json:"stderr"`
	PadStdout  int    `json:"padStdout"` // append ,"pad":"aaa.." inside the JSON object
	PadStderr  int    `json:"padStderr"`
	SleepMs    int    `json:"sleepMs"`
	ChildSleep int    `json:"childSleepMs"` // spawn a descendant holding the pipes
	Marker     string `json:"marker"`
}

func pad(w io.Writer, s string, n int) {
	bw := bufio.NewWriterSize(w, 1<<20)
	if n > 0 && len(s) > 0 && s[len(s)-1] == '}' {
		bw.WriteString(s[:len(s)-1])
		bw.WriteString(`,"pad":"`)
		chunk := make([]byte, 1<<16)
		for i := range chunk {
			chunk[i] = 'a'
		}
		for n > 0 {
			k := n
			if k > len(chunk) {
				k = len(chunk)
			}
			bw.Write(chunk[:k])
			n -= k
		}
		bw.WriteString(`"}`)
	} else {
		bw.WriteString(s)
	}
	bw.Flush()
}

func main() {
	exe, _ := os.Executable()
	cmd := ""
	if len(os.Args) > 1 {
		cmd = os.Args[1]
	}
	if cmd == "__sleep" {
		d, _ := time.ParseDuration(os.Args[2])
		time.Sleep(d)
		return
	}
	raw, err := os.ReadFile(filepath.Join(filepath.Dir(exe), "behaviour.json"))
	if err != nil {
		os.Exit(97)
	}
	var all map[string]behaviour
	if err := json.Unmarshal(raw, &all); err != nil {
		os.Exit(98)
	}
	b, ok := all[cmd]
	if !ok {
		b = all["*"]
	}
	io.Copy(io.Discard, os.Stdin)
	if b.Marker != "" {
		f, _ := os.OpenFile(b.Marker, os.O_APPEND|os.O_CREATE|os.O_WRONLY, 0644)
		f.WriteString(cmd + "\n")
		f.Close()
	}
	if b.ChildSleep > 0 {
		c := exec.Command(exe, "__sleep", (time.Duration(b.ChildSleep) * time.Millisecond).String())
		c.Stdout, c.Stderr = os.Stdout, os.Stderr
		c.Start()
	}
	if b.SleepMs > 0 {
		time.Sleep(time.Duration(b.SleepMs) * time.Millisecond)
	}
	pad(os.Stdout, b.Stdout, b.PadStdout)
	pad(os.Stderr, b.Stderr, b.PadStderr)
	os.Exit(b.Exit)
}
