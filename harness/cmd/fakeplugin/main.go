// fakeplugin is a scriptable notation plugin process (C16, C17, C20).
//
// It reads `behaviour.json` next to its own executable: a map from the protocol command
// (argv[1], or "*") to a behaviour. All fields are optional; unknown fields are ignored.
//
//	exit          exit status (after all output has been written)
//	kill          the process kills itself with SIGKILL instead of exiting
//	stdout/stderr text written to the stream
//	padStdout/padStderr   when > 0 and the text ends in '}', `,"<key>":"aaa…"` with that many
//	              'a's is inserted before the closing brace (streamed, never held in memory)
//	padStdoutKey/padStderrKey   the key used for the padding (default "pad")
//	sleepMs       sleep before writing the output (cut short when a file `stop` appears next to
//	              the executable)
//	childSleepMs  spawn a descendant that inherits stdout/stderr and sleeps that long; the
//	              descendant ends early when a file `stop` appears next to the executable or
//	              when the executable itself disappears (sandbox removed)
//	childPidFile  file the descendant's pid is written to (atomically) before anything else
//	marker        file to which the command name is appended (execution witness)
//	blankStdout/stdoutTail   after the stdout text: that many blanks, then the tail text
//	noStdin       the request on stdin is never read
//	childHoldsStdin  the descendant inherits stdin too (and does not read it either)
package main

import (
	"bufio"
	"encoding/json"
	"io"
	"os"
	"os/exec"
	"path/filepath"
	"strconv"
	"strings"
	"syscall"
	"time"
)

type behaviour struct {
	Exit          int    `json:"exit"`
	Kill          bool   `json:"kill"`
	Stdout        string `json:"stdout"`
	Stderr        string `json:"stderr"`
	PadStdout     int64  `json:"padStdout"` // append ,"pad":"aaa.." inside the JSON object
	PadStderr     int64  `json:"padStderr"`
	PadStdoutKey  string `json:"padStdoutKey"`
	PadStderrKey  string `json:"padStderrKey"`
	SleepMs       int    `json:"sleepMs"`
	ChildSleep    int    `json:"childSleepMs"` // spawn a descendant holding the pipes
	ChildPidFile  string `json:"childPidFile"`
	ChildDetached bool   `json:"childDetached"` // the descendant leaves the plugin's session and process group (setsid)
	LingerMs      int    `json:"lingerMs"`      // after writing the complete output: stay alive that long before exiting
	Marker        string `json:"marker"`
	BlankStdout   int64  `json:"blankStdout"`     // after stdout: that many blanks, then stdoutTail (in one stream)
	StdoutTail    string `json:"stdoutTail"`
	NoStdin       bool   `json:"noStdin"`         // the request is never read
	ChildStdin    bool   `json:"childHoldsStdin"` // the descendant inherits stdin as well
}

func pad(w io.Writer, s string, n int64, key string) {
	if key == "" {
		key = "pad"
	}
	bw := bufio.NewWriterSize(w, 1<<20)
	if n > 0 {
		s = strings.TrimRight(s, " \t\r\n") // a pretty-printed value may end in white space
	}
	if n > 0 && len(s) > 0 && s[len(s)-1] == '}' {
		bw.WriteString(s[:len(s)-1])
		if len(s) > 2 {
			bw.WriteString(",")
		}
		bw.WriteString(`"` + key + `":"`)
		chunk := make([]byte, 1<<16)
		for i := range chunk {
			chunk[i] = 'a'
		}
		for n > 0 {
			k := n
			if k > int64(len(chunk)) {
				k = int64(len(chunk))
			}
			if _, err := bw.Write(chunk[:k]); err != nil {
				return // reader gone (EPIPE): nothing more to do
			}
			n -= k
		}
		bw.WriteString(`"}`)
	} else {
		bw.WriteString(s)
	}
	bw.Flush()
}

// sleeper is the descendant: it holds the inherited stdout/stderr for d, unless told to stop.
func sleeper(d time.Duration, exe string) {
	stop := filepath.Join(filepath.Dir(exe), "stop")
	end := time.Now().Add(d)
	for time.Now().Before(end) {
		if _, err := os.Stat(stop); err == nil {
			return
		}
		if _, err := os.Stat(exe); err != nil {
			return
		}
		time.Sleep(25 * time.Millisecond)
	}
}

func main() {
	exe, _ := os.Executable()
	cmd := ""
	if len(os.Args) > 1 {
		cmd = os.Args[1]
	}
	if cmd == "__sleep" {
		d, _ := time.ParseDuration(os.Args[2])
		if len(os.Args) > 3 {
			sleeper(d, os.Args[3])
			return
		}
		time.Sleep(d)
		return
	}
	raw, err := os.ReadFile(filepath.Join(filepath.Dir(exe), "behaviour.json"))
	if err != nil {
		os.Exit(97)
	}
	var all map[string]behaviour
	if err := json.Unmarshal(raw, &all); err != nil {
		os.Exit(98)
	}
	b, ok := all[cmd]
	if !ok {
		b = all["*"]
	}
	if !b.NoStdin {
		io.Copy(io.Discard, os.Stdin)
	}
	if b.Marker != "" {
		f, _ := os.OpenFile(b.Marker, os.O_APPEND|os.O_CREATE|os.O_WRONLY, 0644)
		f.WriteString(cmd + "\t" + strconv.FormatInt(time.Now().UnixNano(), 10) + "\n") // command and start time
		f.Close()
	}
	if b.ChildSleep > 0 {
		c := exec.Command(exe, "__sleep", (time.Duration(b.ChildSleep) * time.Millisecond).String(), exe)
		c.Stdout, c.Stderr = os.Stdout, os.Stderr
		if b.ChildStdin {
			c.Stdin = os.Stdin
		}
		if b.ChildDetached {
			c.SysProcAttr = &syscall.SysProcAttr{Setsid: true}
		}
		if err := c.Start(); err == nil && b.ChildPidFile != "" {
			tmp := b.ChildPidFile + ".tmp"
			if os.WriteFile(tmp, []byte(strconv.Itoa(c.Process.Pid)), 0644) == nil {
				os.Rename(tmp, b.ChildPidFile)
			}
		}
	}
	if b.SleepMs > 0 {
		// ends early when a file `stop` appears next to the executable (long sleeps of timing cases)
		stop := filepath.Join(filepath.Dir(exe), "stop")
		end := time.Now().Add(time.Duration(b.SleepMs) * time.Millisecond)
		for {
			left := time.Until(end)
			if left <= 0 {
				break
			}
			if left > 25*time.Millisecond {
				left = 25 * time.Millisecond
			}
			time.Sleep(left)
			if _, err := os.Stat(stop); err == nil {
				break
			}
		}
	}
	if b.BlankStdout > 0 || b.StdoutTail != "" {
		bw := bufio.NewWriterSize(os.Stdout, 1<<20)
		bw.WriteString(b.Stdout)
		chunk := []byte(strings.Repeat(" ", 1<<16))
		for n := b.BlankStdout; n > 0; {
			k := n
			if k > int64(len(chunk)) {
				k = int64(len(chunk))
			}
			if _, err := bw.Write(chunk[:k]); err != nil {
				break
			}
			n -= k
		}
		bw.WriteString(b.StdoutTail)
		bw.Flush()
	} else {
		pad(os.Stdout, b.Stdout, b.PadStdout, b.PadStdoutKey)
	}
	pad(os.Stderr, b.Stderr, b.PadStderr, b.PadStderrKey)
	if b.LingerMs > 0 {
		os.Stdout.Sync()
		stop := filepath.Join(filepath.Dir(exe), "stop")
		end := time.Now().Add(time.Duration(b.LingerMs) * time.Millisecond)
		for time.Now().Before(end) {
			time.Sleep(25 * time.Millisecond)
			if _, err := os.Stat(stop); err == nil {
				break
			}
		}
	}
	if b.Kill {
		syscall.Kill(os.Getpid(), syscall.SIGKILL)
		time.Sleep(10 * time.Second)
	}
	os.Exit(b.Exit)
}
