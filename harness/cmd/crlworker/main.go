//go:build verif

// crlworker is the writer/reader process of the C14 check. It drives the real
// crl.FileCache of notation-go from a JSON specification:
//
//	crlworker seq    <root> <spec.json>            stores spec.Ops in order, prints "ack <i>" after each returned Set
//	crlworker hammer <root> <spec.json> <out.jsonl> runs spec.Ops (sets and gets), appends one history record per op
//
// A crash is injected from outside (VERIF_WF_KILL through the verif hooks, strace, or SIGKILL).
package main

import (
	"context"
	"crypto/sha256"
	"crypto/x509"
	"encoding/hex"
	"encoding/json"
	"errors"
	"fmt"
	"os"
	"time"

	corecrl "github.com/notaryproject/notation-core-go/revocation/crl"
	"github.com/notaryproject/notation-go/verifier/crl"
)

// Bundle is a CRL bundle as DER.
type Bundle struct {
	ID    int    `json:"id"`
	Base  []byte `json:"base"`
	Delta []byte `json:"delta,omitempty"`
}

// Op is one operation: Set of bundle B under URL, or Get of URL (B < 0).
type Op struct {
	URL string `json:"url"`
	B   int    `json:"b"`
}

// Spec is the worker's input.
type Spec struct {
	Proc    int      `json:"proc"`
	Bundles []Bundle `json:"bundles"`
	Ops     []Op     `json:"ops"`
}

// Rec is one history record of hammer mode.
type Rec struct {
	Proc   int    `json:"proc"`
	Op     int    `json:"op"`
	URL    string `json:"url"`
	Set    int    `json:"set"` // bundle id stored, -1 for a Get
	Got    string `json:"got"` // Get: "miss", "err:<text>" or the sha256 of base||delta DER
	Call   int64  `json:"call"`
	Return int64  `json:"ret"`
	Err    string `json:"err,omitempty"`
}

func hashBundle(b *corecrl.Bundle) string {
	h := sha256.New()
	h.Write(b.BaseCRL.Raw)
	h.Write([]byte{0})
	if b.DeltaCRL != nil {
		h.Write(b.DeltaCRL.Raw)
	}
	return hex.EncodeToString(h.Sum(nil))
}

func main() {
	if len(os.Args) < 4 {
		fmt.Fprintln(os.Stderr, "usage: crlworker seq|hammer <root> <spec.json> [out.jsonl]")
		os.Exit(2)
	}
	mode, root := os.Args[1], os.Args[2]
	raw, err := os.ReadFile(os.Args[3])
	if err != nil {
		fmt.Fprintln(os.Stderr, err)
		os.Exit(2)
	}
	var spec Spec
	if err := json.Unmarshal(raw, &spec); err != nil {
		fmt.Fprintln(os.Stderr, err)
		os.Exit(2)
	}
	bundles := map[int]*corecrl.Bundle{}
	for _, b := range spec.Bundles {
		base, err := x509.ParseRevocationList(b.Base)
		if err != nil {
			fmt.Fprintln(os.Stderr, "spec bundle:", err)
			os.Exit(2)
		}
		cb := &corecrl.Bundle{BaseCRL: base}
		if b.Delta != nil {
			if cb.DeltaCRL, err = x509.ParseRevocationList(b.Delta); err != nil {
				fmt.Fprintln(os.Stderr, "spec bundle:", err)
				os.Exit(2)
			}
		}
		bundles[b.ID] = cb
	}
	cache, err := crl.NewFileCache(root)
	if err != nil {
		fmt.Fprintln(os.Stderr, err)
		os.Exit(2)
	}
	ctx := context.Background()
	switch mode {
	case "seq":
		fmt.Println("ready")
		for i, op := range spec.Ops {
			if err := cache.Set(ctx, op.URL, bundles[op.B]); err != nil {
				fmt.Printf("seterr %d %v\n", i, err)
				continue
			}
			fmt.Printf("ack %d\n", i)
		}
		fmt.Println("done")
	case "hammer":
		out, err := os.OpenFile(os.Args[4], os.O_CREATE|os.O_WRONLY|os.O_APPEND, 0o644)
		if err != nil {
			fmt.Fprintln(os.Stderr, err)
			os.Exit(2)
		}
		enc := json.NewEncoder(out)
		for i, op := range spec.Ops {
			r := Rec{Proc: spec.Proc, Op: i, URL: op.URL, Set: op.B}
			r.Call = time.Now().UnixNano()
			if op.B >= 0 {
				if err := cache.Set(ctx, op.URL, bundles[op.B]); err != nil {
					r.Err = err.Error()
				}
			} else {
				b, err := cache.Get(ctx, op.URL)
				switch {
				case err == nil:
					r.Got = hashBundle(b)
				case errors.Is(err, corecrl.ErrCacheMiss):
					r.Got = "miss"
				default:
					r.Got = "err:" + err.Error()
				}
			}
			r.Return = time.Now().UnixNano()
			enc.Encode(r)
		}
		out.Close()
	default:
		os.Exit(2)
	}
}
