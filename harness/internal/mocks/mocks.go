// Package mocks holds scripted collaborators for the verifier: trust store, revocation
// validator (both interfaces), plugin manager and verification plugin. Each records the
// calls it receives.
package mocks

import (
	"context"
	"crypto/x509"
	"errors"
	"fmt"
	"sort"
	"sync"
	"time"

	"github.com/notaryproject/notation-core-go/revocation"
	"github.com/notaryproject/notation-core-go/revocation/result"
	nplugin "github.com/notaryproject/notation-go/plugin"
	"github.com/notaryproject/notation-go/verifier/truststore"
	pf "github.com/notaryproject/notation-plugin-framework-go/plugin"
)

// ---------- trust store ----------

// TrustStore maps "type:name" to certificates or an error.
type TrustStore struct {
	mu    sync.Mutex
	Certs map[string][]*x509.Certificate
	Errs  map[string]error
	Empty map[string]bool // stores that load successfully with zero certificates
	Calls []string        // "type:name" in call order
}

// NewTrustStore returns an empty scripted trust store.
func NewTrustStore() *TrustStore {
	return &TrustStore{Certs: map[string][]*x509.Certificate{}, Errs: map[string]error{}, Empty: map[string]bool{}}
}

// Put sets the content of a store.
func (m *TrustStore) Put(typ, name string, certs ...*x509.Certificate) *TrustStore {
	m.Certs[typ+":"+name] = append([]*x509.Certificate{}, certs...)
	return m
}

// PutEmpty makes a store load successfully with no certificates (the real directory store
// never does this; it exercises the verifier's own emptiness guard).
func (m *TrustStore) PutEmpty(typ, name string) *TrustStore {
	m.Empty[typ+":"+name] = true
	return m
}

// Fail makes loading a store fail.
func (m *TrustStore) Fail(typ, name string, err error) *TrustStore {
	m.Errs[typ+":"+name] = err
	return m
}

// GetCertificates implements truststore.X509TrustStore. Like the real store, an empty or
// unknown store is an error.
func (m *TrustStore) GetCertificates(ctx context.Context, t truststore.Type, name string) ([]*x509.Certificate, error) {
	m.mu.Lock()
	defer m.mu.Unlock()
	k := string(t) + ":" + name
	m.Calls = append(m.Calls, k)
	if e := m.Errs[k]; e != nil {
		return nil, e
	}
	if m.Empty[k] {
		return []*x509.Certificate{}, nil
	}
	c, ok := m.Certs[k]
	if !ok || len(c) == 0 {
		return nil, truststore.TrustStoreError{Msg: fmt.Sprintf("scripted trust store %q does not exist or is empty", k)}
	}
	return append([]*x509.Certificate{}, c...), nil
}

// Keys lists the "type:name" keys of the stores that hold certificates, sorted.
func (m *TrustStore) Keys() []string {
	m.mu.Lock()
	defer m.mu.Unlock()
	var out []string
	for k, c := range m.Certs {
		if len(c) > 0 {
			out = append(out, k)
		}
	}
	sort.Strings(out)
	return out
}

// ---------- revocation ----------

// RevCall is what a scripted validator received.
type RevCall struct {
	Chain       []*x509.Certificate
	SigningTime time.Time
	Interface   string // "validator" or "client"
}

// Revocation is a scripted revocation validator implementing both the context-aware
// Validator and the deprecated Revocation client.
type Revocation struct {
	mu      sync.Mutex
	Results []result.Result // per chain position (leaf first); missing entries are OK
	Decor   func(i int, r *result.CertRevocationResult)
	Err     error
	// ErrWithResults makes the validator return its result vector together with Err (an error is
	// an error, whatever comes with it)
	ErrWithResults bool
	Calls          []RevCall
	// OnCall runs at the start of every consultation (e.g. cancels the caller's context) and
	// Delay is slept afterwards; CtxErr makes the context-aware interface answer with the
	// context's error when the context is done by then
	OnCall func()
	Delay  time.Duration
	CtxErr bool
	// OKIfSigningTimeGiven emulates a revocation with an invalidity date in the future of any
	// claimed time: the real checkers report such a certificate as OK when they are handed an
	// authentic signing time (earlier than the invalidity date) and as revoked otherwise
	OKIfSigningTimeGiven bool
}

func (r *Revocation) enter() {
	if r.OnCall != nil {
		r.OnCall()
	}
	if r.Delay > 0 {
		time.Sleep(r.Delay)
	}
}

func (r *Revocation) answer(chain []*x509.Certificate, t time.Time, iface string) ([]*result.CertRevocationResult, error) {
	r.mu.Lock()
	defer r.mu.Unlock()
	r.Calls = append(r.Calls, RevCall{Chain: append([]*x509.Certificate{}, chain...), SigningTime: t, Interface: iface})
	if r.Err != nil && !r.ErrWithResults {
		return nil, r.Err
	}
	out := make([]*result.CertRevocationResult, len(chain))
	for i := range out {
		res := result.ResultOK
		if i < len(r.Results) {
			res = r.Results[i]
		}
		if r.OKIfSigningTimeGiven && res == result.ResultRevoked && !t.IsZero() {
			res = result.ResultOK
		}
		out[i] = &result.CertRevocationResult{Result: res, ServerResults: []*result.ServerResult{{Result: res, Server: "http://scripted.example/ocsp", RevocationMethod: result.RevocationMethodOCSP}}, RevocationMethod: result.RevocationMethodOCSP}
		if r.Decor != nil {
			r.Decor(i, out[i])
		}
	}
	return out, r.Err
}

// ValidateContext implements revocation.Validator.
func (r *Revocation) ValidateContext(ctx context.Context, o revocation.ValidateContextOptions) ([]*result.CertRevocationResult, error) {
	r.enter()
	if r.CtxErr && ctx.Err() != nil {
		r.mu.Lock()
		r.Calls = append(r.Calls, RevCall{Chain: append([]*x509.Certificate{}, o.CertChain...), SigningTime: o.AuthenticSigningTime, Interface: "validator"})
		r.mu.Unlock()
		return nil, ctx.Err()
	}
	return r.answer(o.CertChain, o.AuthenticSigningTime, "validator")
}

// Client returns a view implementing only the deprecated interface.
func (r *Revocation) Client() revocation.Revocation { return clientView{r} }

type clientView struct{ r *Revocation }

func (c clientView) Validate(chain []*x509.Certificate, signingTime time.Time) ([]*result.CertRevocationResult, error) {
	c.r.enter()
	return c.r.answer(chain, signingTime, "client")
}

// NumCalls returns how often the validator was consulted.
func (r *Revocation) NumCalls() int { r.mu.Lock(); defer r.mu.Unlock(); return len(r.Calls) }

// ---------- plugins ----------

// Plugin is a scripted verification plugin.
type Plugin struct {
	mu           sync.Mutex
	Name         string
	Version      string
	Capabilities []pf.Capability
	MetaErr      error
	VerifyErr    error
	// Verdicts per capability: "success", "failure", "missing"
	Verdicts  map[pf.Capability]string
	Processed []any
	// logs
	MetaCalls   int
	VerifyCalls []*pf.VerifySignatureRequest
	// SharedMeta: every GetMetadata answer carries the SAME capability slice (first answer's);
	// Capabilities itself stays pristine for the oracle
	SharedMeta bool
	sharedCaps []pf.Capability
}

func (p *Plugin) GetMetadata(ctx context.Context, req *pf.GetMetadataRequest) (*pf.GetMetadataResponse, error) {
	p.mu.Lock()
	defer p.mu.Unlock()
	p.MetaCalls++
	if p.MetaErr != nil {
		return nil, p.MetaErr
	}
	caps := append([]pf.Capability{}, p.Capabilities...)
	if p.SharedMeta {
		// an in-process plugin may well answer every call with the same slice
		if p.sharedCaps == nil {
			p.sharedCaps = caps
		}
		caps = p.sharedCaps
	}
	return &pf.GetMetadataResponse{Name: p.Name, Description: "scripted", Version: p.Version, URL: "https://example.invalid",
		SupportedContractVersions: []string{"1.0"}, Capabilities: caps}, nil
}

func (p *Plugin) VerifySignature(ctx context.Context, req *pf.VerifySignatureRequest) (*pf.VerifySignatureResponse, error) {
	p.mu.Lock()
	defer p.mu.Unlock()
	p.VerifyCalls = append(p.VerifyCalls, req)
	if p.VerifyErr != nil {
		return nil, p.VerifyErr
	}
	resp := &pf.VerifySignatureResponse{VerificationResults: map[pf.Capability]*pf.VerificationResult{}, ProcessedAttributes: append([]any{}, p.Processed...)}
	for _, c := range req.TrustPolicy.SignatureVerification {
		v, ok := p.Verdicts[c]
		if !ok {
			v = "success"
		}
		switch v {
		case "success":
			resp.VerificationResults[c] = &pf.VerificationResult{Success: true}
		case "failure":
			resp.VerificationResults[c] = &pf.VerificationResult{Success: false, Reason: "scripted failure"}
		}
	}
	return resp, nil
}

func (p *Plugin) DescribeKey(ctx context.Context, req *pf.DescribeKeyRequest) (*pf.DescribeKeyResponse, error) {
	return nil, errors.New("scripted verification plugin cannot sign")
}
func (p *Plugin) GenerateSignature(ctx context.Context, req *pf.GenerateSignatureRequest) (*pf.GenerateSignatureResponse, error) {
	return nil, errors.New("scripted verification plugin cannot sign")
}
func (p *Plugin) GenerateEnvelope(ctx context.Context, req *pf.GenerateEnvelopeRequest) (*pf.GenerateEnvelopeResponse, error) {
	return nil, errors.New("scripted verification plugin cannot sign")
}

// RequestedCapabilities returns the capabilities of every verify call, flattened.
func (p *Plugin) RequestedCapabilities() []pf.Capability {
	p.mu.Lock()
	defer p.mu.Unlock()
	var out []pf.Capability
	for _, r := range p.VerifyCalls {
		out = append(out, r.TrustPolicy.SignatureVerification...)
	}
	return out
}

// Manager is a scripted plugin manager.
type Manager struct {
	mu      sync.Mutex
	Plugins map[string]nplugin.Plugin
	Err     error
	Gets    []string
}

func (m *Manager) Get(ctx context.Context, name string) (nplugin.Plugin, error) {
	m.mu.Lock()
	defer m.mu.Unlock()
	m.Gets = append(m.Gets, name)
	if m.Err != nil {
		return nil, m.Err
	}
	p, ok := m.Plugins[name]
	if !ok {
		return nil, fmt.Errorf("scripted manager: plugin %q not installed", name)
	}
	return p, nil
}

func (m *Manager) List(ctx context.Context) ([]string, error) {
	var out []string
	for k := range m.Plugins {
		out = append(out, k)
	}
	return out, nil
}
