package mocks

import (
	"context"
	"encoding/json"
	"errors"
	"time"

	pf "github.com/notaryproject/notation-plugin-framework-go/plugin"

	"verifharness/internal/envb"
	"verifharness/internal/pki"
)

// HonestSignPlugin is an in-process signing plugin that does exactly what it is asked: it signs
// the payload it receives with its chain's leaf key (raw signature or complete envelope built by
// the harness's own envelope builder) and echoes key id and envelope type.
type HonestSignPlugin struct {
	Caps    []pf.Capability
	Chain   *pki.Chain
	KeySpec string // e.g. "EC-256"
	// DropAnnotations makes the envelope generator dishonest in one respect: it signs the payload it
	// was given minus the target descriptor's annotations
	DropAnnotations bool
}

func (p *HonestSignPlugin) GetMetadata(ctx context.Context, req *pf.GetMetadataRequest) (*pf.GetMetadataResponse, error) {
	return &pf.GetMetadataResponse{Name: "honest", Description: "honest in-process plugin", Version: "1.0.0", URL: "https://example.invalid",
		SupportedContractVersions: []string{"1.0"}, Capabilities: p.Caps}, nil
}

func (p *HonestSignPlugin) DescribeKey(ctx context.Context, req *pf.DescribeKeyRequest) (*pf.DescribeKeyResponse, error) {
	return &pf.DescribeKeyResponse{KeyID: req.KeyID, KeySpec: pf.KeySpec(p.KeySpec)}, nil
}

func (p *HonestSignPlugin) GenerateSignature(ctx context.Context, req *pf.GenerateSignatureRequest) (*pf.GenerateSignatureResponse, error) {
	alg := map[string]pf.SignatureAlgorithm{"EC-256": pf.SignatureAlgorithmECDSA_SHA256, "EC-384": pf.SignatureAlgorithmECDSA_SHA384, "EC-521": pf.SignatureAlgorithmECDSA_SHA512,
		"RSA-2048": pf.SignatureAlgorithmRSASSA_PSS_SHA256, "RSA-3072": pf.SignatureAlgorithmRSASSA_PSS_SHA384, "RSA-4096": pf.SignatureAlgorithmRSASSA_PSS_SHA512}
	var chain [][]byte
	for _, c := range p.Chain.X509() {
		chain = append(chain, c.Raw)
	}
	return &pf.GenerateSignatureResponse{KeyID: req.KeyID, Signature: envb.RawSign(p.Chain.Leaf().Key, req.Payload), SigningAlgorithm: alg[p.KeySpec], CertificateChain: chain}, nil
}

func (p *HonestSignPlugin) GenerateEnvelope(ctx context.Context, req *pf.GenerateEnvelopeRequest) (*pf.GenerateEnvelopeResponse, error) {
	now := time.Now()
	payload := req.Payload
	if p.DropAnnotations {
		var pl map[string]map[string]json.RawMessage
		if json.Unmarshal(payload, &pl) == nil && pl["targetArtifact"] != nil {
			delete(pl["targetArtifact"], "annotations")
			payload, _ = json.Marshal(pl)
		}
	}
	spec := envb.Spec{Format: req.SignatureEnvelopeType, Payload: payload, ContentType: req.PayloadType, Scheme: envb.SchemeX509, SigningTime: now,
		Chain: p.Chain.X509(), Key: p.Chain.Leaf().Key, Agent: "honest plugin"}
	if req.ExpiryDurationInSeconds > 0 {
		spec.Expiry = now.Add(time.Duration(req.ExpiryDurationInSeconds) * time.Second)
	}
	return &pf.GenerateEnvelopeResponse{SignatureEnvelope: envb.Build(spec), SignatureEnvelopeType: req.SignatureEnvelopeType}, nil
}

func (p *HonestSignPlugin) VerifySignature(ctx context.Context, req *pf.VerifySignatureRequest) (*pf.VerifySignatureResponse, error) {
	return nil, errors.New("not a verification plugin")
}
