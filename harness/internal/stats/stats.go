// Package stats collects, per test, what the generated search actually covered
// (cases, classes, distinct non-trivial fingerprints, samples) and reports
// property failures to the driver in a machine-readable form.
//
// Protocol with tools/check.py:
//   - env VERIF_STATS_DIR: directory into which every Recorder flushes one JSON file
//   - env VERIF_KNOWN: comma separated finding keys listed as "known:" in KNOWN_FINDINGS.txt
//   - a property failure is reported with Failf, which produces a line
//     "VERIF-FAIL {json}" in the test output (through the testing.TB's Fatalf).
package stats

import (
	"encoding/json"
	"fmt"
	"hash/fnv"
	"os"
	"path/filepath"
	"sort"
	"strconv"
	"strings"
	"sync"
	"testing"
)

const maxFingerprints = 400000 // per recorder; beyond it the distinct count is a lower bound
const samplesPerClass = 2
const maxSampleClasses = 40

// Recorder accumulates coverage facts of one test function.
type Recorder struct {
	mu         sync.Mutex
	Property   string
	Test       string
	Rule       string
	evals      int64
	nontrivial int64
	classes    map[string]int64
	fps        map[uint64]struct{}
	fpCapped   bool
	samples    map[string][]any
	known      map[string]int64
	extra      map[string]any
	exhaustive bool
	flushed    bool
}

var (
	regMu sync.Mutex
	regs  []*Recorder
)

// New creates a recorder for one test of one property and registers a flush at
// the end of the test.
func New(t testing.TB, property, rule string) *Recorder {
	r := &Recorder{Property: property, Test: t.Name(), Rule: rule,
		classes: map[string]int64{}, fps: map[uint64]struct{}{}, samples: map[string][]any{},
		known: map[string]int64{}, extra: map[string]any{}}
	regMu.Lock()
	regs = append(regs, r)
	regMu.Unlock()
	t.Cleanup(r.Flush)
	return r
}

// Fingerprint hashes the canonical textual form of a case.
func Fingerprint(parts ...any) uint64 {
	h := fnv.New64a()
	for _, p := range parts {
		switch v := p.(type) {
		case []byte:
			h.Write(v)
		case string:
			h.Write([]byte(v))
		default:
			fmt.Fprintf(h, "%v", v)
		}
		h.Write([]byte{0})
	}
	return h.Sum64()
}

// Case records one evaluated case. classes are free-form labels, nontrivial says
// whether the case is non-trivial by the property's rule, fp identifies the case
// (distinctness), sample (may be nil) renders the case for the evidence file and is
// only called when a sample slot is free.
func (r *Recorder) Case(classes []string, nontrivial bool, fp uint64, sample func() any) {
	r.mu.Lock()
	defer r.mu.Unlock()
	r.evals++
	if nontrivial {
		r.nontrivial++
		if len(r.fps) < maxFingerprints {
			r.fps[fp] = struct{}{}
		} else {
			r.fpCapped = true
		}
	}
	for _, c := range classes {
		r.classes[c]++
	}
	if sample != nil && len(classes) > 0 {
		c := classes[0]
		if s, ok := r.samples[c]; (ok && len(s) < samplesPerClass) || (!ok && len(r.samples) < maxSampleClasses) {
			r.samples[c] = append(s, sample())
		}
	}
}

// Class bumps a class counter without counting a case.
func (r *Recorder) Class(c string, n int64) {
	r.mu.Lock()
	r.classes[c] += n
	r.mu.Unlock()
}

// Set stores an extra evidence key.
func (r *Recorder) Set(k string, v any) {
	r.mu.Lock()
	r.extra[k] = v
	r.mu.Unlock()
}

// Add adds to a numeric extra evidence key.
func (r *Recorder) Add(k string, n int64) {
	r.mu.Lock()
	cur, _ := r.extra[k].(int64)
	r.extra[k] = cur + n
	r.mu.Unlock()
}

// Exhaustive marks the enumerated sub-space as completely covered.
func (r *Recorder) Exhaustive() { r.mu.Lock(); r.exhaustive = true; r.mu.Unlock() }

var (
	knownOnce sync.Once
	knownSet  map[string]bool
)

func loadKnown() {
	knownSet = map[string]bool{}
	for _, k := range strings.Split(os.Getenv("VERIF_KNOWN"), ",") {
		if k = strings.TrimSpace(k); k != "" {
			knownSet[k] = true
		}
	}
}

// Known reports whether key is a listed known finding; if it is, the hit is counted
// (the caller then excludes the case instead of failing).
func (r *Recorder) Known(key string) bool {
	knownOnce.Do(loadKnown)
	if !knownSet[key] {
		return false
	}
	r.mu.Lock()
	r.known[key]++
	r.mu.Unlock()
	return true
}

// Failer is the part of testing.TB / rapid.T used to report a failure.
type Failer interface {
	Fatalf(format string, args ...any)
}

// Failure is what the driver parses.
type Failure struct {
	Property string `json:"property"`
	Key      string `json:"key"`
	Message  string `json:"message"`
	Case     any    `json:"case,omitempty"`
}

// Failf reports a property violation with a finding key. If the key is a listed known
// finding it is counted and false is returned after doing nothing else (callers that
// want to continue behind a known finding test the return value); otherwise it calls
// Fatalf (which does not return).
func (r *Recorder) Failf(t Failer, key string, cas any, format string, args ...any) bool {
	if r.Known(key) {
		return false
	}
	f := Failure{Property: r.Property, Key: key, Message: fmt.Sprintf(format, args...), Case: cas}
	b, err := json.Marshal(f)
	if err != nil {
		f.Case = fmt.Sprintf("%+v", cas)
		b, _ = json.Marshal(f)
	}
	t.Fatalf("VERIF-FAIL %s", b)
	return true
}

// Flush writes the recorder to VERIF_STATS_DIR (no-op without it).
func (r *Recorder) Flush() {
	r.mu.Lock()
	defer r.mu.Unlock()
	dir := os.Getenv("VERIF_STATS_DIR")
	if dir == "" || r.flushed {
		return
	}
	r.flushed = true
	fps := make([]string, 0, len(r.fps))
	for f := range r.fps {
		fps = append(fps, strconv.FormatUint(f, 16))
	}
	sort.Strings(fps)
	out := map[string]any{
		"property": r.Property, "test": r.Test, "rule": r.Rule,
		"evaluations": r.evals, "nontrivial": r.nontrivial, "classes": r.classes,
		"fingerprints": fps, "fingerprints_capped": r.fpCapped, "samples": r.samples,
		"known_hits": r.known, "extra": r.extra, "exhaustive": r.exhaustive,
	}
	b, err := json.Marshal(out)
	if err != nil {
		// samples may hold something unmarshalable; drop them rather than lose the counts
		out["samples"] = map[string]any{}
		b, _ = json.Marshal(out)
	}
	name := strings.NewReplacer("/", "_", " ", "_").Replace(r.Test)
	_ = os.WriteFile(filepath.Join(dir, fmt.Sprintf("%s-%d.json", name, os.Getpid())), b, 0o644)
}

// Tier returns "quick" or "thorough".
func Tier() string {
	if os.Getenv("VERIF_TIER") == "thorough" {
		return "thorough"
	}
	return "quick"
}

// Scale returns q in the quick tier and th in the thorough tier, divided over the
// shards the driver runs (VERIF_SHARDS), at least 1.
func Scale(q, th int) int {
	n := q
	if Tier() == "thorough" {
		n = th
	}
	if s, err := strconv.Atoi(os.Getenv("VERIF_SHARDS")); err == nil && s > 1 {
		n = (n + s - 1) / s
	}
	if n < 1 {
		n = 1
	}
	return n
}

// Shard returns (index, count) of this process among the driver's shards.
func Shard() (int, int) {
	i, _ := strconv.Atoi(os.Getenv("VERIF_SHARD"))
	n, err := strconv.Atoi(os.Getenv("VERIF_SHARDS"))
	if err != nil || n < 1 {
		n = 1
	}
	return i, n
}

// Seed returns the driver's seed for this shard (never 0).
func Seed() uint64 {
	s, _ := strconv.ParseUint(os.Getenv("VERIF_SHARD_SEED"), 10, 64)
	if s == 0 {
		s = 1
	}
	return s
}
