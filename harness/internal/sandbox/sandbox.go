// Package sandbox gives per-case directory trees, tree snapshots and diffs.
package sandbox

import (
	"crypto/sha256"
	"encoding/hex"
	"fmt"
	"io/fs"
	"os"
	"path/filepath"
	"sort"
	"strings"
)

// Entry describes one file-system object.
type Entry struct {
	Mode   fs.FileMode
	Size   int64
	SHA256 string
	Link   string
}

func (e Entry) String() string {
	return fmt.Sprintf("%v %d %s %s", e.Mode, e.Size, e.SHA256, e.Link)
}

// Tree maps slash-separated relative paths to entries.
type Tree map[string]Entry

// Snapshot walks root (without following symlinks).
func Snapshot(root string) (Tree, error) {
	t := Tree{}
	err := filepath.Walk(root, func(p string, info fs.FileInfo, err error) error {
		if err != nil {
			return err
		}
		rel, _ := filepath.Rel(root, p)
		rel = filepath.ToSlash(rel)
		e := Entry{Mode: info.Mode()}
		switch {
		case info.Mode()&fs.ModeSymlink != 0:
			e.Link, _ = os.Readlink(p)
		case info.Mode().IsRegular():
			b, err := os.ReadFile(p)
			if err != nil {
				return err
			}
			s := sha256.Sum256(b)
			e.Size, e.SHA256 = info.Size(), hex.EncodeToString(s[:])
		}
		t[rel] = e
		return nil
	})
	return t, err
}

// Diff lists the differences between two trees as sorted human-readable lines:
// "+ path", "- path", "~ path".
func Diff(a, b Tree) []string {
	var out []string
	for p, ea := range a {
		eb, ok := b[p]
		if !ok {
			out = append(out, "- "+p)
		} else if ea != eb {
			out = append(out, "~ "+p)
		}
	}
	for p := range b {
		if _, ok := a[p]; !ok {
			out = append(out, "+ "+p)
		}
	}
	sort.Strings(out)
	return out
}

// Within reports whether path (cleaned) lies inside base (cleaned), base itself included.
func Within(base, path string) bool {
	base, path = filepath.Clean(base), filepath.Clean(path)
	if path == base {
		return true
	}
	return strings.HasPrefix(path, base+string(filepath.Separator))
}
