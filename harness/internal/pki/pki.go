// Package pki mints keys, certificates, chains and CRLs for generated cases.
// Nothing here calls notation-go.
package pki

import (
	"crypto"
	"crypto/ecdsa"
	"crypto/elliptic"
	"crypto/rand"
	"crypto/rsa"
	"crypto/sha1"
	"crypto/x509"
	"crypto/x509/pkix"
	"embed"
	"encoding/asn1"
	"encoding/pem"
	"fmt"
	"math/big"
	"sync"
	"sync/atomic"
	"time"
)

//go:embed testkeys/*.pem
var keyFS embed.FS

// Cert is a certificate with its private key.
type Cert struct {
	Cert *x509.Certificate
	Key  crypto.Signer
}

var serial atomic.Int64

func init() { serial.Store(time.Now().UnixNano() & 0xffffffffff) }

// NextSerial returns a process-unique serial number.
func NextSerial() *big.Int { return big.NewInt(serial.Add(1)) }

// KeySpecs in the order used by generators.
var KeySpecs = []string{"EC-256", "EC-384", "EC-521", "RSA-2048", "RSA-3072", "RSA-4096"}

var (
	poolMu sync.Mutex
	pool   = map[string][]crypto.Signer{}
)

func rsaKey(bits int) crypto.Signer {
	b, err := keyFS.ReadFile(fmt.Sprintf("testkeys/rsa%d.pem", bits))
	if err != nil {
		panic(err)
	}
	blk, _ := pem.Decode(b)
	k, err := x509.ParsePKCS8PrivateKey(blk.Bytes)
	if err != nil {
		panic(err)
	}
	return k.(*rsa.PrivateKey)
}

// NewECKey generates a fresh EC key.
func NewECKey(c elliptic.Curve) crypto.Signer {
	k, err := ecdsa.GenerateKey(c, rand.Reader)
	if err != nil {
		panic(err)
	}
	return k
}

// Key returns the idx-th pooled key of the given spec (keys are created on demand; the
// RSA keys are the committed test keys, so every index maps to the same RSA key).
func Key(spec string, idx int) crypto.Signer {
	poolMu.Lock()
	defer poolMu.Unlock()
	for len(pool[spec]) <= idx {
		var k crypto.Signer
		switch spec {
		case "EC-256":
			k = NewECKey(elliptic.P256())
		case "EC-384":
			k = NewECKey(elliptic.P384())
		case "EC-521":
			k = NewECKey(elliptic.P521())
		case "RSA-2048":
			k = rsaKey(2048)
		case "RSA-3072":
			k = rsaKey(3072)
		case "RSA-4096":
			k = rsaKey(4096)
		default:
			panic("unknown key spec " + spec)
		}
		pool[spec] = append(pool[spec], k)
	}
	return pool[spec][idx]
}

// AV is one attribute type/value of a distinguished name.
type AV struct {
	T string `json:"t"`
	V string `json:"v"`
}

// OIDs of the attribute types the generators use. "X" is an OID Go does not render by name.
var OIDs = map[string]asn1.ObjectIdentifier{
	"C": {2, 5, 4, 6}, "ST": {2, 5, 4, 8}, "O": {2, 5, 4, 10}, "OU": {2, 5, 4, 11}, "CN": {2, 5, 4, 3},
	"L": {2, 5, 4, 7}, "STREET": {2, 5, 4, 9}, "POSTALCODE": {2, 5, 4, 17}, "SERIALNUMBER": {2, 5, 4, 5},
	"X": {1, 2, 3, 4, 5},
}

// RDNs builds an RDNSequence from a list of RDNs, each a list of AVs (so multi-valued
// RDNs, duplicates and order are under the caller's control).
func RDNs(rdns [][]AV) pkix.RDNSequence {
	var out pkix.RDNSequence
	for _, r := range rdns {
		var set pkix.RelativeDistinguishedNameSET
		for _, a := range r {
			set = append(set, pkix.AttributeTypeAndValue{Type: OIDs[a.T], Value: a.V})
		}
		out = append(out, set)
	}
	return out
}

// Spec describes a certificate to mint.
type Spec struct {
	Subject    pkix.Name
	RawSubject pkix.RDNSequence // if non-nil, used verbatim instead of Subject
	NotBefore  time.Time
	NotAfter   time.Time
	IsCA       bool
	PathLen    int // -1: no path length constraint
	EKU        []x509.ExtKeyUsage
	CritTSEKU  bool // critical extended key usage "timestamping" (RFC 3161 TSA leaf)
	NoKeyUsage bool
	KeyUsage   x509.KeyUsage // if non-zero, replaces the default key usage
	// NoBasicConstraints: the certificate carries no basic-constraints extension at all
	NoBasicConstraints bool
	Serial             *big.Int // if non-nil, the serial number (default: a fresh one)
	Key                crypto.Signer
	CRLSign            bool
	// SKI: a non-CA certificate carries a subject key identifier (the SHA-1 of its public key, as issuing
	// CAs commonly do); crypto/x509 adds one to CA certificates by itself
	SKI bool
}

var (
	oidEKU = asn1.ObjectIdentifier{2, 5, 29, 37}
	oidTS  = asn1.ObjectIdentifier{1, 3, 6, 1, 5, 5, 7, 3, 8}
)

func serialOr(s *big.Int) *big.Int {
	if s != nil {
		return s
	}
	return NextSerial()
}

// Mint creates a certificate signed by parent (self-signed when parent is nil).
func Mint(spec Spec, parent *Cert) *Cert {
	if spec.Key == nil {
		spec.Key = NewECKey(elliptic.P256())
	}
	tmpl := &x509.Certificate{
		SerialNumber:          serialOr(spec.Serial),
		Subject:               spec.Subject,
		NotBefore:             spec.NotBefore,
		NotAfter:              spec.NotAfter,
		BasicConstraintsValid: true,
		IsCA:                  spec.IsCA,
	}
	if spec.RawSubject != nil {
		raw, err := asn1.Marshal(spec.RawSubject)
		if err != nil {
			panic(err)
		}
		tmpl.RawSubject = raw
	}
	if spec.IsCA {
		tmpl.KeyUsage = x509.KeyUsageCertSign
		if spec.CRLSign {
			tmpl.KeyUsage |= x509.KeyUsageCRLSign
		}
		if spec.PathLen >= 0 {
			tmpl.MaxPathLen = spec.PathLen
			tmpl.MaxPathLenZero = spec.PathLen == 0
		} else {
			tmpl.MaxPathLen = -1
		}
		tmpl.ExtKeyUsage = spec.EKU // a CA restricted to a purpose (nil: unrestricted)
	} else {
		tmpl.KeyUsage = x509.KeyUsageDigitalSignature
		tmpl.ExtKeyUsage = spec.EKU
	}
	if spec.SKI {
		if pub, err := x509.MarshalPKIXPublicKey(spec.Key.Public()); err == nil {
			h := sha1.Sum(pub)
			tmpl.SubjectKeyId = h[:]
		}
	}
	if spec.NoKeyUsage {
		tmpl.KeyUsage = 0
	}
	if spec.NoBasicConstraints {
		tmpl.BasicConstraintsValid, tmpl.IsCA = false, false
	}
	if spec.KeyUsage != 0 {
		tmpl.KeyUsage = spec.KeyUsage
	}
	if spec.CritTSEKU {
		tmpl.ExtKeyUsage = nil
		v, _ := asn1.Marshal([]asn1.ObjectIdentifier{oidTS})
		tmpl.ExtraExtensions = []pkix.Extension{{Id: oidEKU, Critical: true, Value: v}}
	}
	signerCert, signerKey := tmpl, spec.Key
	if parent != nil {
		signerCert, signerKey = parent.Cert, parent.Key
	}
	der, err := x509.CreateCertificate(rand.Reader, tmpl, signerCert, spec.Key.Public(), signerKey)
	if err != nil {
		panic(err)
	}
	c, err := x509.ParseCertificate(der)
	if err != nil {
		panic(err)
	}
	return &Cert{Cert: c, Key: spec.Key}
}

// Chain is leaf-first.
type Chain struct {
	Certs []*Cert // [leaf, intermediates..., root]
}

// X509 returns the certificates leaf first.
func (c *Chain) X509() []*x509.Certificate {
	out := make([]*x509.Certificate, len(c.Certs))
	for i, x := range c.Certs {
		out[i] = x.Cert
	}
	return out
}

// Leaf returns the signing certificate.
func (c *Chain) Leaf() *Cert { return c.Certs[0] }

// Root returns the last certificate.
func (c *Chain) Root() *Cert { return c.Certs[len(c.Certs)-1] }

// ChainOpts drives NewChain.
type ChainOpts struct {
	Intermediates int
	LeafKey       crypto.Signer
	LeafSubject   pkix.Name
	LeafRaw       pkix.RDNSequence
	NotBefore     time.Time
	NotAfter      time.Time
	Name          string // prefix of CA common names
	// per position overrides (index into leaf-first chain); zero times mean "use default"
	Windows map[int][2]time.Time
	// RawSubjects overrides the subject of CA positions (index into leaf-first chain)
	RawSubjects map[int]pkix.RDNSequence
	// SerialsOf: use the serial numbers of this chain's certificates, position by position (with the same
	// Name this gives a "re-issued" chain: same names, same serial numbers, other keys)
	SerialsOf *Chain
}

// DefaultLeafSubject satisfies the identity rules (C, ST, O present).
func DefaultLeafSubject(cn string) pkix.Name {
	return pkix.Name{Country: []string{"US"}, Province: []string{"WA"}, Organization: []string{"verif"}, CommonName: cn}
}

// NewChain mints root -> intermediates -> leaf satisfying notation-core-go's code-signing
// chain rules (leaf: digitalSignature + codeSigning EKU, not CA; CAs: certSign, path lengths).
func NewChain(o ChainOpts) *Chain {
	now := time.Now()
	if o.NotBefore.IsZero() {
		o.NotBefore = now.Add(-24 * time.Hour)
	}
	if o.NotAfter.IsZero() {
		o.NotAfter = now.Add(24 * time.Hour)
	}
	if o.Name == "" {
		o.Name = "verif"
	}
	n := o.Intermediates + 2
	win := func(pos int) (time.Time, time.Time) {
		if w, ok := o.Windows[pos]; ok {
			return w[0], w[1]
		}
		return o.NotBefore, o.NotAfter
	}
	serial := func(pos int) *big.Int {
		if o.SerialsOf != nil && pos < len(o.SerialsOf.Certs) {
			return o.SerialsOf.Certs[pos].Cert.SerialNumber
		}
		return nil
	}
	certs := make([]*Cert, n)
	nb, na := win(n - 1)
	certs[n-1] = Mint(Spec{Subject: pkix.Name{CommonName: o.Name + " root", Organization: []string{"verif ca"}, Country: []string{"US"}, Province: []string{"WA"}},
		RawSubject: o.RawSubjects[n-1], NotBefore: nb, NotAfter: na, IsCA: true, PathLen: o.Intermediates, CRLSign: true, Serial: serial(n - 1)}, nil)
	for i := n - 2; i >= 1; i-- {
		nb, na = win(i)
		certs[i] = Mint(Spec{Subject: pkix.Name{CommonName: fmt.Sprintf("%s inter %d", o.Name, i), Organization: []string{"verif ca"}, Country: []string{"US"}, Province: []string{"WA"}},
			RawSubject: o.RawSubjects[i], NotBefore: nb, NotAfter: na, IsCA: true, PathLen: i - 1, CRLSign: true, Serial: serial(i)}, certs[i+1])
	}
	nb, na = win(0)
	subj := o.LeafSubject
	if subj.CommonName == "" && len(subj.Organization) == 0 && o.LeafRaw == nil {
		subj = DefaultLeafSubject(o.Name + " leaf")
	}
	certs[0] = Mint(Spec{Subject: subj, RawSubject: o.LeafRaw, NotBefore: nb, NotAfter: na,
		EKU: []x509.ExtKeyUsage{x509.ExtKeyUsageCodeSigning}, Key: o.LeafKey, Serial: serial(0)}, certs[1])
	return &Chain{Certs: certs}
}

// SelfSignedLeaf mints a self-signed code-signing certificate (chain of length 1).
func SelfSignedLeaf(key crypto.Signer, subj pkix.Name, nb, na time.Time) *Chain {
	c := Mint(Spec{Subject: subj, NotBefore: nb, NotAfter: na, EKU: []x509.ExtKeyUsage{x509.ExtKeyUsageCodeSigning}, Key: key}, nil)
	return &Chain{Certs: []*Cert{c}}
}

// CRL mints a CRL issued by ca.
func CRL(ca *Cert, number int64, thisUpdate, nextUpdate time.Time, entries int, extra []pkix.Extension) *x509.RevocationList {
	var rev []x509.RevocationListEntry
	for i := 0; i < entries; i++ {
		rev = append(rev, x509.RevocationListEntry{SerialNumber: big.NewInt(int64(i + 2)), RevocationTime: thisUpdate})
	}
	der, err := x509.CreateRevocationList(rand.Reader, &x509.RevocationList{Number: big.NewInt(number), ThisUpdate: thisUpdate,
		NextUpdate: nextUpdate, RevokedCertificateEntries: rev, ExtraExtensions: extra}, ca.Cert, ca.Key)
	if err != nil {
		panic(err)
	}
	l, err := x509.ParseRevocationList(der)
	if err != nil {
		panic(err)
	}
	return l
}

// PEM encodes certificates as concatenated PEM blocks.
func PEM(cs ...*x509.Certificate) []byte {
	var b []byte
	for _, c := range cs {
		b = append(b, pem.EncodeToMemory(&pem.Block{Type: "CERTIFICATE", Bytes: c.Raw})...)
	}
	return b
}

// KeyPEM encodes a private key as PKCS#8 PEM.
func KeyPEM(k crypto.Signer) []byte {
	b, err := x509.MarshalPKCS8PrivateKey(k)
	if err != nil {
		panic(err)
	}
	return pem.EncodeToMemory(&pem.Block{Type: "PRIVATE KEY", Bytes: b})
}
