package pki

import (
	"crypto"
	"crypto/ecdsa"
	"crypto/rand"
	"crypto/rsa"
	"crypto/sha256"
	"crypto/x509"
	"crypto/x509/pkix"
	"encoding/asn1"
	"math/big"
	"time"
)

var (
	oidSHA256               = asn1.ObjectIdentifier{2, 16, 840, 1, 101, 3, 4, 2, 1}
	oidSHA384               = asn1.ObjectIdentifier{2, 16, 840, 1, 101, 3, 4, 2, 2}
	oidSHA512               = asn1.ObjectIdentifier{2, 16, 840, 1, 101, 3, 4, 2, 3}
	oidSHA256WithRSA        = asn1.ObjectIdentifier{1, 2, 840, 113549, 1, 1, 11}
	oidECDSAWithSHA256      = asn1.ObjectIdentifier{1, 2, 840, 10045, 4, 3, 2}
	oidSignedData           = asn1.ObjectIdentifier{1, 2, 840, 113549, 1, 7, 2}
	oidContentType          = asn1.ObjectIdentifier{1, 2, 840, 113549, 1, 9, 3}
	oidMessageDigest        = asn1.ObjectIdentifier{1, 2, 840, 113549, 1, 9, 4}
	oidSigningTime          = asn1.ObjectIdentifier{1, 2, 840, 113549, 1, 9, 5}
	oidTSTInfo              = asn1.ObjectIdentifier{1, 2, 840, 113549, 1, 9, 16, 1, 4}
	oidSigningCertificateV2 = asn1.ObjectIdentifier{1, 2, 840, 113549, 1, 9, 16, 2, 47}
)

type contentInfo struct {
	ContentType asn1.ObjectIdentifier
	Content     asn1.RawValue `asn1:"explicit,tag:0"`
}

type signedData struct {
	Version                    int
	DigestAlgorithmIdentifiers []pkix.AlgorithmIdentifier `asn1:"set"`
	EncapsulatedContentInfo    encapContentInfo
	Certificates               asn1.RawValue `asn1:"optional,tag:0"`
	SignerInfos                []signerInfo  `asn1:"set"`
}

type encapContentInfo struct {
	ContentType asn1.ObjectIdentifier
	Content     []byte `asn1:"explicit,optional,tag:0"`
}

type signerInfo struct {
	Version            int
	SignerIdentifier   issuerAndSerialNumber
	DigestAlgorithm    pkix.AlgorithmIdentifier
	SignedAttributes   []attribute `asn1:"optional,tag:0"`
	SignatureAlgorithm pkix.AlgorithmIdentifier
	Signature          []byte
}

type issuerAndSerialNumber struct {
	Issuer       asn1.RawValue
	SerialNumber *big.Int
}

type attribute struct {
	Type   asn1.ObjectIdentifier
	Values asn1.RawValue `asn1:"set"`
}

type signingCertificateV2 struct {
	Certificates []essCertIDv2
}

type essCertIDv2 struct {
	CertHash []byte
}

type messageImprint struct {
	HashAlgorithm pkix.AlgorithmIdentifier
	HashedMessage []byte
}

type accuracy struct {
	Seconds      int `asn1:"optional"`
	Milliseconds int `asn1:"optional,tag:0"`
	Microseconds int `asn1:"optional,tag:1"`
}

type tstInfo struct {
	Version        int
	Policy         asn1.ObjectIdentifier
	MessageImprint messageImprint
	SerialNumber   *big.Int
	GenTime        time.Time `asn1:"generalized"`
	Accuracy       accuracy  `asn1:"optional"`
}

func rawASN1(val any, params string) asn1.RawValue {
	b, err := asn1.MarshalWithParams(val, params)
	if err != nil {
		panic(err)
	}
	var raw asn1.RawValue
	if _, err = asn1.UnmarshalWithParams(b, &raw, params); err != nil {
		panic(err)
	}
	return raw
}

type TSA struct {
	Leaf  *Cert
	Extra []*x509.Certificate // extra certs embedded (intermediates/root)
}

type TokenSpec struct {
	Message  []byte
	Hash     crypto.Hash
	GenTime  time.Time
	Accuracy int // seconds
	OmitCert bool
}

func hashOID(h crypto.Hash) asn1.ObjectIdentifier {
	switch h {
	case crypto.SHA384:
		return oidSHA384
	case crypto.SHA512:
		return oidSHA512
	}
	return oidSHA256
}

func (t *TSA) Token(s TokenSpec) []byte {
	hh := s.Hash.New()
	hh.Write(s.Message)
	info := tstInfo{
		Version:        1,
		Policy:         asn1.ObjectIdentifier{1, 3, 6, 1, 4, 1, 4146, 2, 3},
		MessageImprint: messageImprint{HashAlgorithm: pkix.AlgorithmIdentifier{Algorithm: hashOID(s.Hash)}, HashedMessage: hh.Sum(nil)},
		SerialNumber:   NextSerial(),
		GenTime:        s.GenTime.UTC().Truncate(time.Second),
		Accuracy:       accuracy{Seconds: s.Accuracy},
	}
	infoBytes, err := asn1.Marshal(info)
	if err != nil {
		panic(err)
	}
	var issuer asn1.RawValue
	if _, err := asn1.Unmarshal(t.Leaf.Cert.RawIssuer, &issuer); err != nil {
		panic(err)
	}
	infoDigest := sha256.Sum256(infoBytes)
	certHash := sha256.Sum256(t.Leaf.Cert.Raw)
	attrs := []attribute{
		{Type: oidContentType, Values: rawASN1([]any{oidTSTInfo}, "set")},
		{Type: oidMessageDigest, Values: rawASN1([]any{infoDigest[:]}, "set")},
		{Type: oidSigningTime, Values: rawASN1([]any{s.GenTime.UTC()}, "set")},
		{Type: oidSigningCertificateV2, Values: rawASN1([]any{signingCertificateV2{Certificates: []essCertIDv2{{CertHash: certHash[:]}}}}, "set")},
	}
	si := signerInfo{
		Version:          1,
		SignerIdentifier: issuerAndSerialNumber{Issuer: issuer, SerialNumber: t.Leaf.Cert.SerialNumber},
		DigestAlgorithm:  pkix.AlgorithmIdentifier{Algorithm: oidSHA256},
		SignedAttributes: attrs,
	}
	encodedAttrs, err := asn1.MarshalWithParams(attrs, "set")
	if err != nil {
		panic(err)
	}
	d := sha256.Sum256(encodedAttrs)
	switch k := t.Leaf.Key.(type) {
	case *rsa.PrivateKey:
		si.SignatureAlgorithm = pkix.AlgorithmIdentifier{Algorithm: oidSHA256WithRSA}
		si.Signature, err = rsa.SignPKCS1v15(rand.Reader, k, crypto.SHA256, d[:])
	case *ecdsa.PrivateKey:
		si.SignatureAlgorithm = pkix.AlgorithmIdentifier{Algorithm: oidECDSAWithSHA256}
		si.Signature, err = ecdsa.SignASN1(rand.Reader, k, d[:])
	}
	if err != nil {
		panic(err)
	}
	sd := signedData{
		Version:                    3,
		DigestAlgorithmIdentifiers: []pkix.AlgorithmIdentifier{{Algorithm: oidSHA256}},
		EncapsulatedContentInfo:    encapContentInfo{ContentType: oidTSTInfo, Content: infoBytes},
		SignerInfos:                []signerInfo{si},
	}
	if !s.OmitCert {
		raw := append([]byte{}, t.Leaf.Cert.Raw...)
		for _, c := range t.Extra {
			raw = append(raw, c.Raw...)
		}
		sd.Certificates = asn1.RawValue{Class: asn1.ClassContextSpecific, Tag: 0, IsCompound: true, Bytes: raw}
	}
	ci := contentInfo{ContentType: oidSignedData, Content: rawASN1(sd, "explicit,tag:0")}
	out, err := asn1.Marshal(ci)
	if err != nil {
		panic(err)
	}
	return out
}
