// Package envb builds, splits, re-assembles and independently verifies Notary Project
// signature envelopes (JWS-JSON and COSE_Sign1) without calling notation-core-go or
// notation-go. It is the harness's own implementation of the two envelope formats.
package envb

import (
	"bytes"
	"crypto"
	"crypto/ecdsa"
	"crypto/rand"
	"crypto/rsa"
	"crypto/x509"
	"encoding/base64"
	"encoding/json"
	"errors"
	"fmt"
	"math/big"
	"sort"
	"time"

	"github.com/fxamacker/cbor/v2"
)

const (
	MTJWS       = "application/jose+json"
	MTCOSE      = "application/cose"
	PayloadType = "application/vnd.cncf.notary.payload.v1+json"

	SchemeX509 = "notary.x509"
	SchemeSA   = "notary.x509.signingAuthority"

	AttrPlugin       = "io.cncf.notary.verificationPlugin"
	AttrPluginMinVer = "io.cncf.notary.verificationPluginMinVersion"
)

// Formats lists the two envelope media types.
var Formats = []string{MTJWS, MTCOSE}

// Attr is an extended signed attribute.
type Attr struct {
	Key      any // string, or int64 for COSE integer labels
	Critical bool
	Value    any
}

// Spec describes an envelope to build.
type Spec struct {
	Format         string
	Payload        []byte
	ContentType    string
	Scheme         string
	SigningTime    time.Time
	Expiry         time.Time
	Ext            []Attr
	Chain          []*x509.Certificate
	Key            crypto.Signer
	Agent          string
	Timestamp      func(sig []byte) []byte // optional countersignature generator over the signature value
	OmitCritScheme bool
}

// AlgInfo binds a public key to the signature and hash algorithm Notary prescribes.
type AlgInfo struct {
	JWS  string
	COSE int64
	Hash crypto.Hash
	RSA  bool
	Size int // EC coordinate size in bytes
	Spec string
}

// AlgFor is the harness's own key -> algorithm table.
func AlgFor(pub crypto.PublicKey) (AlgInfo, error) {
	switch k := pub.(type) {
	case *rsa.PublicKey:
		switch k.N.BitLen() {
		case 2048:
			return AlgInfo{"PS256", -37, crypto.SHA256, true, 0, "RSA-2048"}, nil
		case 3072:
			return AlgInfo{"PS384", -38, crypto.SHA384, true, 0, "RSA-3072"}, nil
		case 4096:
			return AlgInfo{"PS512", -39, crypto.SHA512, true, 0, "RSA-4096"}, nil
		}
	case *ecdsa.PublicKey:
		switch k.Curve.Params().BitSize {
		case 256:
			return AlgInfo{"ES256", -7, crypto.SHA256, false, 32, "EC-256"}, nil
		case 384:
			return AlgInfo{"ES384", -35, crypto.SHA384, false, 48, "EC-384"}, nil
		case 521:
			return AlgInfo{"ES512", -36, crypto.SHA512, false, 66, "EC-521"}, nil
		}
	}
	return AlgInfo{}, errors.New("unsupported key")
}

func mustAlg(pub crypto.PublicKey) AlgInfo {
	ai, err := AlgFor(pub)
	if err != nil {
		panic(err)
	}
	return ai
}

// RawSign signs msg with the algorithm bound to key.
func RawSign(key crypto.Signer, msg []byte) []byte {
	ai := mustAlg(key.Public())
	h := ai.Hash.New()
	h.Write(msg)
	d := h.Sum(nil)
	if ai.RSA {
		s, err := rsa.SignPSS(rand.Reader, key.(*rsa.PrivateKey), ai.Hash, d, &rsa.PSSOptions{SaltLength: rsa.PSSSaltLengthEqualsHash})
		if err != nil {
			panic(err)
		}
		return s
	}
	r, s, err := ecdsa.Sign(rand.Reader, key.(*ecdsa.PrivateKey), d)
	if err != nil {
		panic(err)
	}
	out := make([]byte, 2*ai.Size)
	r.FillBytes(out[:ai.Size])
	s.FillBytes(out[ai.Size:])
	return out
}

// RawVerify checks sig over msg under pub with the algorithm bound to pub.
func RawVerify(pub crypto.PublicKey, msg, sig []byte) bool {
	ai, err := AlgFor(pub)
	if err != nil {
		return false
	}
	h := ai.Hash.New()
	h.Write(msg)
	d := h.Sum(nil)
	if ai.RSA {
		return rsa.VerifyPSS(pub.(*rsa.PublicKey), ai.Hash, d, sig, &rsa.PSSOptions{SaltLength: rsa.PSSSaltLengthEqualsHash}) == nil
	}
	if len(sig) != 2*ai.Size {
		return false
	}
	r := new(big.Int).SetBytes(sig[:ai.Size])
	s := new(big.Int).SetBytes(sig[ai.Size:])
	return ecdsa.Verify(pub.(*ecdsa.PublicKey), d, r, s)
}

var b64 = base64.RawURLEncoding

// Build builds an envelope of s.Format.
func Build(s Spec) []byte {
	if s.Format == MTCOSE {
		return BuildCOSE(s)
	}
	return BuildJWS(s)
}

// ---------- JWS ----------

// JWSParts is the general JWS JSON serialisation Notary uses.
type JWSParts struct {
	Payload   string         `json:"payload"`
	Protected string         `json:"protected"`
	Header    map[string]any `json:"header"`
	Signature string         `json:"signature"`
}

// JWSProtected builds the protected header JSON for s.
func JWSProtected(s Spec) []byte {
	ai := mustAlg(s.Key.Public())
	prot := map[string]any{"alg": ai.JWS, "cty": s.ContentType, "io.cncf.notary.signingScheme": s.Scheme}
	crit := []string{}
	if !s.OmitCritScheme {
		crit = append(crit, "io.cncf.notary.signingScheme")
	}
	if s.Scheme == SchemeSA {
		prot["io.cncf.notary.authenticSigningTime"] = s.SigningTime.UTC().Format(time.RFC3339)
		crit = append(crit, "io.cncf.notary.authenticSigningTime")
	} else {
		prot["io.cncf.notary.signingTime"] = s.SigningTime.UTC().Format(time.RFC3339)
	}
	if !s.Expiry.IsZero() {
		prot["io.cncf.notary.expiry"] = s.Expiry.UTC().Format(time.RFC3339)
		crit = append(crit, "io.cncf.notary.expiry")
	}
	for _, a := range s.Ext {
		k := fmt.Sprint(a.Key)
		prot[k] = a.Value
		if a.Critical {
			crit = append(crit, k)
		}
	}
	prot["crit"] = crit
	pj, _ := json.Marshal(prot)
	return pj
}

// BuildJWS builds a JWS envelope.
func BuildJWS(s Spec) []byte {
	p := JWSParts{Payload: b64.EncodeToString(s.Payload), Protected: b64.EncodeToString(JWSProtected(s))}
	sig := RawSign(s.Key, []byte(p.Protected+"."+p.Payload))
	p.Signature = b64.EncodeToString(sig)
	x5c := []string{}
	for _, c := range s.Chain {
		x5c = append(x5c, base64.StdEncoding.EncodeToString(c.Raw))
	}
	p.Header = map[string]any{"x5c": x5c}
	if s.Agent != "" {
		p.Header["io.cncf.notary.signingAgent"] = s.Agent
	}
	if s.Timestamp != nil {
		p.Header["io.cncf.notary.timestampSignature"] = base64.StdEncoding.EncodeToString(s.Timestamp(sig))
	}
	out, _ := json.Marshal(p)
	return out
}

// SplitJWS decodes the outer JSON.
func SplitJWS(env []byte) (*JWSParts, error) {
	var p JWSParts
	if err := json.Unmarshal(env, &p); err != nil {
		return nil, err
	}
	return &p, nil
}

// JoinJWS re-serialises parts.
func JoinJWS(p *JWSParts) []byte {
	out, _ := json.Marshal(p)
	return out
}

// Verified is what the independent verifier extracted from an envelope it accepted.
type Verified struct {
	ContentType string
	Payload     []byte
	Leaf        *x509.Certificate
	Chain       []*x509.Certificate
	Signature   []byte
	Alg         AlgInfo
}

// IndependentVerify dispatches on the media type.
func IndependentVerify(mediaType string, env []byte) (*Verified, error) {
	switch mediaType {
	case MTJWS:
		return IndependentVerifyJWS(env)
	case MTCOSE:
		return IndependentVerifyCOSE(env)
	}
	return nil, errors.New("unknown media type")
}

// IndependentVerifyJWS recomputes the signing input and checks the signature under x5c[0].
func IndependentVerifyJWS(env []byte) (*Verified, error) {
	var p struct {
		Payload, Protected, Signature string
		Header                        struct {
			X5c [][]byte `json:"x5c"`
		}
	}
	if err := json.Unmarshal(env, &p); err != nil {
		return nil, err
	}
	if len(p.Header.X5c) == 0 {
		return nil, errors.New("no x5c")
	}
	var chain []*x509.Certificate
	for _, raw := range p.Header.X5c {
		c, err := x509.ParseCertificate(raw)
		if err != nil {
			return nil, err
		}
		chain = append(chain, c)
	}
	leaf := chain[0]
	pj, err := b64.DecodeString(p.Protected)
	if err != nil {
		return nil, err
	}
	var prot struct {
		Alg string `json:"alg"`
		Cty string `json:"cty"`
	}
	if err := json.Unmarshal(pj, &prot); err != nil {
		return nil, err
	}
	ai, err := AlgFor(leaf.PublicKey)
	if err != nil {
		return nil, err
	}
	if ai.JWS != prot.Alg {
		return nil, fmt.Errorf("alg %q does not match the leaf key (%s)", prot.Alg, ai.JWS)
	}
	sig, err := b64.DecodeString(p.Signature)
	if err != nil {
		return nil, err
	}
	if !RawVerify(leaf.PublicKey, []byte(p.Protected+"."+p.Payload), sig) {
		return nil, errors.New("bad signature")
	}
	pl, err := b64.DecodeString(p.Payload)
	if err != nil {
		return nil, err
	}
	return &Verified{ContentType: prot.Cty, Payload: pl, Leaf: leaf, Chain: chain, Signature: sig, Alg: ai}, nil
}

// ---------- COSE ----------

var em = func() cbor.EncMode {
	m, err := cbor.CoreDetEncOptions().EncMode()
	if err != nil {
		panic(err)
	}
	return m
}()

// COSESign1 is the untagged COSE_Sign1 array.
type COSESign1 struct {
	_           struct{} `cbor:",toarray"`
	Protected   []byte
	Unprotected map[any]any
	Payload     []byte
	Signature   []byte
}

func cborTime(t time.Time) cbor.RawTag {
	b, _ := em.Marshal(t.Unix())
	return cbor.RawTag{Number: 1, Content: b}
}

// COSEProtected builds the protected header bytes for s.
func COSEProtected(s Spec) []byte {
	ai := mustAlg(s.Key.Public())
	prot := map[any]any{int64(1): ai.COSE, int64(3): s.ContentType, "io.cncf.notary.signingScheme": s.Scheme}
	crit := []any{}
	if !s.OmitCritScheme {
		crit = append(crit, "io.cncf.notary.signingScheme")
	}
	if s.Scheme == SchemeSA {
		prot["io.cncf.notary.authenticSigningTime"] = cborTime(s.SigningTime)
		crit = append(crit, "io.cncf.notary.authenticSigningTime")
	} else {
		prot["io.cncf.notary.signingTime"] = cborTime(s.SigningTime)
	}
	if !s.Expiry.IsZero() {
		prot["io.cncf.notary.expiry"] = cborTime(s.Expiry)
		crit = append(crit, "io.cncf.notary.expiry")
	}
	for _, a := range s.Ext {
		prot[a.Key] = a.Value
		if a.Critical {
			crit = append(crit, a.Key)
		}
	}
	prot[int64(2)] = crit
	pb, err := em.Marshal(prot)
	if err != nil {
		panic(err)
	}
	return pb
}

// COSESigInput is the Sig_structure for COSE_Sign1.
func COSESigInput(protected, payload []byte) []byte {
	tbs, err := em.Marshal([]any{"Signature1", protected, []byte{}, payload})
	if err != nil {
		panic(err)
	}
	return tbs
}

// BuildCOSE builds a COSE_Sign1 envelope.
func BuildCOSE(s Spec) []byte {
	pb := COSEProtected(s)
	sig := RawSign(s.Key, COSESigInput(pb, s.Payload))
	chain := []any{}
	for _, c := range s.Chain {
		chain = append(chain, c.Raw)
	}
	unprot := map[any]any{int64(33): chain}
	if len(chain) == 1 {
		// RFC 9360: a single certificate may be encoded as a bstr; the array form is also accepted by go-cose users
		unprot[int64(33)] = chain
	}
	if s.Agent != "" {
		unprot["io.cncf.notary.signingAgent"] = s.Agent
	}
	if s.Timestamp != nil {
		unprot["io.cncf.notary.timestampSignature"] = s.Timestamp(sig)
	}
	return JoinCOSE(&COSESign1{Protected: pb, Unprotected: unprot, Payload: s.Payload, Signature: sig})
}

// JoinCOSE serialises a tagged COSE_Sign1.
func JoinCOSE(m *COSESign1) []byte {
	body, err := em.Marshal(m)
	if err != nil {
		panic(err)
	}
	out, err := em.Marshal(cbor.RawTag{Number: 18, Content: body})
	if err != nil {
		panic(err)
	}
	return out
}

// SplitCOSE decodes the outer array.
func SplitCOSE(env []byte) (*COSESign1, error) {
	var tag cbor.RawTag
	if err := cbor.Unmarshal(env, &tag); err != nil {
		return nil, err
	}
	if tag.Number != 18 {
		return nil, errors.New("not a COSE_Sign1 tag")
	}
	var m COSESign1
	if err := cbor.Unmarshal(tag.Content, &m); err != nil {
		return nil, err
	}
	return &m, nil
}

// IndependentVerifyCOSE recomputes the Sig_structure and checks the signature under x5chain[0].
func IndependentVerifyCOSE(env []byte) (*Verified, error) {
	m, err := SplitCOSE(env)
	if err != nil {
		return nil, err
	}
	var raws [][]byte
	switch v := m.Unprotected[uint64(33)].(type) {
	case []any:
		for _, e := range v {
			b, ok := e.([]byte)
			if !ok {
				return nil, errors.New("bad x5chain element")
			}
			raws = append(raws, b)
		}
	case []byte:
		raws = [][]byte{v}
	default:
		return nil, errors.New("no x5chain")
	}
	if len(raws) == 0 {
		return nil, errors.New("empty x5chain")
	}
	var chain []*x509.Certificate
	for _, raw := range raws {
		c, err := x509.ParseCertificate(raw)
		if err != nil {
			return nil, err
		}
		chain = append(chain, c)
	}
	leaf := chain[0]
	var prot map[any]any
	if err := cbor.Unmarshal(m.Protected, &prot); err != nil {
		return nil, err
	}
	ai, err := AlgFor(leaf.PublicKey)
	if err != nil {
		return nil, err
	}
	var alg int64
	switch a := prot[uint64(1)].(type) {
	case int64:
		alg = a
	case uint64:
		alg = int64(a)
	default:
		return nil, errors.New("no alg")
	}
	if alg != ai.COSE {
		return nil, fmt.Errorf("alg %d does not match the leaf key (%d)", alg, ai.COSE)
	}
	if !RawVerify(leaf.PublicKey, COSESigInput(m.Protected, m.Payload), m.Signature) {
		return nil, errors.New("bad signature")
	}
	cty, _ := prot[uint64(3)].(string)
	return &Verified{ContentType: cty, Payload: m.Payload, Leaf: leaf, Chain: chain, Signature: m.Signature, Alg: ai}, nil
}

// ---------- payload helpers (own JSON decoding) ----------

// Target is the harness's own reading of a Notary payload's target descriptor.
type Target struct {
	MediaType   string
	Digest      string
	Size        json.Number
	Annotations map[string]string
	Keys        []string // keys present at descriptor level (case-sensitive, sorted)
	TopKeys     []string // keys present at payload level
	HasTarget   bool
}

// DecodeTarget decodes payload JSON the way encoding/json decodes into the payload struct
// (case-insensitive key match, last duplicate wins), but on generic maps so that unknown
// keys remain visible.
func DecodeTarget(payload []byte) (*Target, error) {
	dec := json.NewDecoder(bytes.NewReader(payload))
	dec.UseNumber()
	var top map[string]json.RawMessage
	if err := dec.Decode(&top); err != nil {
		return nil, err
	}
	t := &Target{}
	for k := range top {
		t.TopKeys = append(t.TopKeys, k)
	}
	sort.Strings(t.TopKeys)
	raw, ok := top["targetArtifact"]
	if !ok {
		return t, nil
	}
	t.HasTarget = true
	d2 := json.NewDecoder(bytes.NewReader(raw))
	d2.UseNumber()
	var desc map[string]any
	if err := d2.Decode(&desc); err != nil {
		return nil, err
	}
	for k := range desc {
		t.Keys = append(t.Keys, k)
	}
	sort.Strings(t.Keys)
	t.MediaType, _ = desc["mediaType"].(string)
	t.Digest, _ = desc["digest"].(string)
	t.Size, _ = desc["size"].(json.Number)
	if a, ok := desc["annotations"].(map[string]any); ok {
		t.Annotations = map[string]string{}
		for k, v := range a {
			s, ok := v.(string)
			if !ok {
				return nil, fmt.Errorf("annotation %q is not a string", k)
			}
			t.Annotations[k] = s
		}
	}
	return t, nil
}

// PayloadFor renders the Notary payload JSON for a target descriptor.
func PayloadFor(mediaType, digest string, size int64, annotations map[string]string) []byte {
	desc := map[string]any{"mediaType": mediaType, "digest": digest, "size": size}
	if annotations != nil {
		desc["annotations"] = annotations
	}
	b, _ := json.Marshal(map[string]any{"targetArtifact": desc})
	return b
}
