// Package rp wraps pgregory.net/rapid so that the number of checks and the seed of
// every property are functions of the driver's tier, shard and VERIF_SEED.
package rp

import (
	"encoding/json"
	"flag"
	"hash/fnv"
	"os"
	"strconv"
	"testing"

	"pgregory.net/rapid"

	"verifharness/internal/stats"
)

// Check runs prop with quick/thorough case counts (totals over all shards).
func Check(t *testing.T, quick, thorough int, prop func(*rapid.T)) {
	t.Helper()
	n := stats.Scale(quick, thorough)
	if os.Getenv("VERIF_REPLAY") != "" {
		n = 1
	}
	_ = flag.Set("rapid.checks", strconv.Itoa(n))
	h := fnv.New64a()
	h.Write([]byte(t.Name()))
	seed := (stats.Seed() ^ h.Sum64()) >> 1
	if seed == 0 {
		seed = 1
	}
	_ = flag.Set("rapid.seed", strconv.FormatUint(seed, 10))
	rapid.Check(t, prop)
}

// ReplayCase loads the JSON case of a replay descriptor into v; it reports whether a
// replay case is present (enumeration tests then run only that case).
func ReplayCase(v any) bool {
	p := os.Getenv("VERIF_REPLAY_CASE")
	if p == "" {
		return false
	}
	b, err := os.ReadFile(p)
	if err != nil {
		return false
	}
	return json.Unmarshal(b, v) == nil
}

// Pick draws one element of xs.
func Pick[T any](t *rapid.T, label string, xs ...T) T {
	return xs[rapid.IntRange(0, len(xs)-1).Draw(t, label)]
}
