// Package kit holds helpers shared by the verifier-centred properties: enforcement maps,
// policy documents, verifier construction and a standard artifact.
package kit

import (
	"crypto/sha256"
	"crypto/sha512"
	"encoding/hex"
	"fmt"
	"sort"
	"strings"

	"github.com/notaryproject/notation-go/verifier"
	"github.com/notaryproject/notation-go/verifier/trustpolicy"
	"github.com/opencontainers/go-digest"
	ocispec "github.com/opencontainers/image-spec/specs-go/v1"
	"pgregory.net/rapid"

	"verifharness/internal/mocks"
)

// Types of validations other than integrity, in evaluation order.
var Types = []string{"authenticity", "expiry", "authenticTimestamp", "revocation"}

// BaseMaps are the three non-skip preset levels as the specification defines them
// (written from the trust-policy specification, not read from the library).
var BaseMaps = map[string]map[string]string{
	"strict":     {"authenticity": "enforce", "authenticTimestamp": "enforce", "expiry": "enforce", "revocation": "enforce"},
	"permissive": {"authenticity": "enforce", "authenticTimestamp": "log", "expiry": "log", "revocation": "log"},
	"audit":      {"authenticity": "log", "authenticTimestamp": "log", "expiry": "log", "revocation": "log"},
}

// Level is a base level plus overrides.
type Level struct {
	Base     string            `json:"base"`
	Override map[string]string `json:"override,omitempty"`
}

// Effective returns the enforcement map (without integrity, which is always enforce).
func (l Level) Effective() map[string]string {
	m := map[string]string{}
	for k, v := range BaseMaps[l.Base] {
		m[k] = v
	}
	for k, v := range l.Override {
		m[k] = v
	}
	return m
}

// Key renders the effective map canonically.
func (l Level) Key() string {
	e := l.Effective()
	var parts []string
	for _, t := range Types {
		parts = append(parts, t[:5]+"="+e[t])
	}
	return strings.Join(parts, ",")
}

// String renders base+override.
func (l Level) String() string {
	var ks []string
	for k := range l.Override {
		ks = append(ks, k)
	}
	sort.Strings(ks)
	s := l.Base
	for _, k := range ks {
		s += fmt.Sprintf("+%s:%s", k, l.Override[k])
	}
	return s
}

// SV converts to the library's configuration struct.
func (l Level) SV(verifyTimestamp string) trustpolicy.SignatureVerification {
	sv := trustpolicy.SignatureVerification{VerificationLevel: l.Base, VerifyTimestamp: trustpolicy.TimestampOption(verifyTimestamp)}
	if len(l.Override) > 0 {
		sv.Override = map[trustpolicy.ValidationType]trustpolicy.ValidationAction{}
		for k, v := range l.Override {
			sv.Override[trustpolicy.ValidationType(k)] = trustpolicy.ValidationAction(v)
		}
	}
	return sv
}

// AllMaps enumerates the 24 reachable enforcement maps, each as a target map.
func AllMaps() []map[string]string {
	var out []map[string]string
	for _, a := range []string{"enforce", "log"} {
		for _, ts := range []string{"enforce", "log"} {
			for _, e := range []string{"enforce", "log"} {
				for _, r := range []string{"enforce", "log", "skip"} {
					out = append(out, map[string]string{"authenticity": a, "authenticTimestamp": ts, "expiry": e, "revocation": r})
				}
			}
		}
	}
	return out
}

// LevelFor expresses target through base with the minimal override (plus, when redundant
// is set, overrides that restate the base value).
func LevelFor(base string, target map[string]string, redundant bool) Level {
	l := Level{Base: base, Override: map[string]string{}}
	for _, t := range Types {
		if BaseMaps[base][t] != target[t] || redundant {
			l.Override[t] = target[t]
		}
	}
	if len(l.Override) == 0 {
		l.Override = nil
	}
	return l
}

// DrawLevel draws one of the 24 maps reached through a random base.
func DrawLevel(t *rapid.T) Level {
	maps := AllMaps()
	target := maps[rapid.IntRange(0, len(maps)-1).Draw(t, "enforcementMap")]
	base := []string{"strict", "permissive", "audit"}[rapid.IntRange(0, 2).Draw(t, "baseLevel")]
	return LevelFor(base, target, rapid.IntRange(0, 3).Draw(t, "redundantOverride") == 0)
}

// WeakerOrEqual reports whether b is pointwise weaker than or equal to a on the
// enforce > log > skip axis.
func WeakerOrEqual(a, b map[string]string) bool {
	rank := map[string]int{"enforce": 2, "log": 1, "skip": 0}
	for _, t := range Types {
		if rank[b[t]] > rank[a[t]] {
			return false
		}
	}
	return true
}

// OCIDoc builds a one-statement OCI policy document with the wildcard scope.
func OCIDoc(name string, sv trustpolicy.SignatureVerification, stores, identities []string) *trustpolicy.OCIDocument {
	return &trustpolicy.OCIDocument{Version: "1.0", TrustPolicies: []trustpolicy.OCITrustPolicy{{
		Name: name, SignatureVerification: sv, TrustStores: stores, TrustedIdentities: identities, RegistryScopes: []string{"*"}}}}
}

// BlobDoc builds a one-statement blob policy document; the statement is global when name is "".
func BlobDoc(name string, sv trustpolicy.SignatureVerification, stores, identities []string) *trustpolicy.BlobDocument {
	st := trustpolicy.BlobTrustPolicy{Name: name, SignatureVerification: sv, TrustStores: stores, TrustedIdentities: identities}
	if name == "" {
		st.Name = "global-statement"
		st.GlobalPolicy = true
	}
	return &trustpolicy.BlobDocument{Version: "1.0", TrustPolicies: []trustpolicy.BlobTrustPolicy{st}}
}

// Options returns verifier options with scripted always-OK revocation validators, so that
// no case ever reaches the network.
func Options() verifier.VerifierOptions {
	return verifier.VerifierOptions{RevocationCodeSigningValidator: &mocks.Revocation{}, RevocationTimestampingValidator: &mocks.Revocation{}}
}

// Artifact is a standard OCI artifact descriptor with its payload-relevant fields.
func Artifact(seed string) ocispec.Descriptor {
	sum := sha256.Sum256([]byte("artifact:" + seed))
	return ocispec.Descriptor{MediaType: "application/vnd.oci.image.manifest.v1+json",
		Digest: digest.Digest("sha256:" + hex.EncodeToString(sum[:])), Size: int64(100 + len(seed))}
}

// Reference is an artifact reference for desc in a fixed repository.
func Reference(desc ocispec.Descriptor) string {
	return "registry.example/verif/repo@" + desc.Digest.String()
}

// OwnDigest computes the digest of data with the hash name ("sha256", "sha384", "sha512")
// using the standard library only.
func OwnDigest(hash string, data []byte) string {
	switch hash {
	case "sha256":
		s := sha256.Sum256(data)
		return "sha256:" + hex.EncodeToString(s[:])
	case "sha384":
		s := sha512.Sum384(data)
		return "sha384:" + hex.EncodeToString(s[:])
	case "sha512":
		s := sha512.Sum512(data)
		return "sha512:" + hex.EncodeToString(s[:])
	}
	panic("unknown hash " + hash)
}
